"""C17: grounded predicates are materialised faithfully; re-running is idempotent.

Stateful check (Hypothesis RuleBasedStateMachine).  One machine owns one persistent
SQLite database FILE (run-private temp dir) and 2-3 variants of one generated program
which ground the same predicate names but differ in facts or rules.  Every run executes
exactly the statements `logica.py <file> run <pred>` executes (preamble,
defines_and_exports, main_predicate_sql on a fresh sqlite3_logica connection, see
common/sqlite3_logica.py RunSqlScript) or goes through concertina_lib
(tools/run_in_terminal.RunMany).  Model: table name -> (columns, multiset of rows) from
the reference evaluator lv/ref.py.  After every step the file is read through a second,
plain sqlite3 connection and compared with the model; returned rows are compared with
the reference.
"""
import collections
import copy
import json
import os
import shutil
import sqlite3
import tempfile
import traceback

import hypothesis
from hypothesis import strategies as st
from hypothesis import settings, HealthCheck, Phase
from hypothesis.stateful import RuleBasedStateMachine, rule, initialize, precondition, \
    run_state_machine_as_test

from lv import core, model, gen, ref, canon, drive
from lv.props import common

ID = 'C17'
BUDGET = {'quick': 704, 'thorough': 16 * 260}        # state machines (histories)
WALL = {'quick': 900, 'thorough': 5400}
RULE = ('one case = one history: a fresh SQLite database file attached with '
        '@AttachDatabase (alias logica_home; alias logica_test = the default SQLite dataset '
        'when logica_home is not attached; or alias vault + @Dataset("vault"), optionally '
        'with logica_home attached to ":memory:" as well) and 2-3 variants of one generated '
        'program (typed core-fragment generator: 2-3 fact tables, 3-5 derived predicates '
        'with joins, disjunction, negation, aggregation, functional values, lists/records, '
        'optionally the documented `Workflow() += 1 :- A() | B()` predicate) that @Ground '
        'the same 1-3 intermediate predicate names (default table name, '
        '`@Ground(P, "<alias>.<name>")`, `overwrite: true`) and differ in facts (re-drawn '
        '/ duplicated / dropped), in rules (dropped rule / dropped filter) or are an '
        'independent program over the same names; in ~45% of the histories 1-2 program '
        'flags (@DefineFlag(name, default); some string literals of the rules and facts '
        'carry a "${name}" reference as whole literal / prefix / suffix; variants may differ '
        'in the defaults) and every run passes no user flag values or one of 1-2 drawn '
        'assignments (--name=value on the logica.py command line, user_flags otherwise): '
        'the reference value is that of the program with every ${name} replaced by the '
        'effective value; then up to 7 (thorough: 11) steps: '
        'run(variant, predicate) = the statement list of `logica.py run` executed as '
        'RunSqlScript does on a fresh connection, or (1/3) the real `logica.py <file> '
        'run_to_csv <predicate>` executed in-process; run_many(variant, 2-3 predicates) = '
        'tools/run_in_terminal.RunMany through concertina_lib.ExecuteLogicaProgram; '
        'probe(variant, predicate, g) = a run during which the freshly written table of a '
        'grounded dependency g is doubled or emptied through the second connection before '
        'its readers execute (decides "dependants read that table"); reopen of the '
        'observing connection; repeat of the previous run; the previous predicate under '
        'another variant. After every step: returned columns/rows == reference evaluator, '
        'every table in the file == model (tables of the grounded dependencies of the '
        "requested predicate(s) rewritten with the variant's value; a requested grounded "
        'predicate itself and all other tables untouched). Non-trivial = >= 2 runs and '
        'either a run that overwrites a table last written by a different variant or '
        'under different flag values with different contents, or an exact repeat of an '
        'earlier run step (same flag values); distinct by hash '
        'of (variant texts, steps).')
ASSUMPTIONS = [
    'reference evaluator lv/ref.py is the oracle for predicate values',
    'a run = the statement list of logica.py main (sqlite branch) executed as '
    'RunSqlScript does (executescript for all but the last, execute for the last) on a '
    'fresh SqliteConnect(); the artistic-table rendering itself is not exercised',
    'run_many = tools/run_in_terminal.RunMany: one LogicaProgram, one execution per '
    'predicate, ExecuteLogicaProgram with a fresh connection',
    'composite values compared up to SQLite JSON text encoding (lv/canon.py)',
    'table names compared case-insensitively (SQLite identifiers)',
    'a run whose script does not materialise a syntactic grounded dependency is skipped '
    '(counted) when, by the reference evaluator, emptying and doubling that relation '
    'changes neither the requested predicates nor the other tables the run writes (dead '
    'code the compiler eliminates); otherwise the missing table is a failure',
    'overwrite: false, @Ground(P, Q), copy_to_file and grounded predicates without rules '
    'are outside the stated domain and not generated',
    'flags: only "${name}" inside string literals of rules/facts (not in annotations or '
    'table names, no FlagValue, no flag referring to a flag: C10), values over [a-z0-9]; '
    'the program a flag assignment denotes is the text with each reference replaced',
    'dialect-library parse memoised per process (filled by the real parser)']

OPTS = dict(p_colnames=0.0, p_neg=0.15, p_agg=0.2, p_distinct=0.3, p_null_fact=0.03,
            p_or=0.25, p_fcall=0.1, agg_ops=('Sum', 'Min', 'Max', '+'), n_idb=(3, 5),
            n_inj=(0, 2), nest_depth=1, p_two_rules=0.3)
QUICK = dict(steps=7)
THOROUGH = dict(steps=11)
DB_MARK = '{DB}'
ALIASES = (('logica_home', False), ('logica_home', False), ('vault', False),
           ('vault', True),      # True: logica_home is attached too, to ':memory:'
           ('logica_test', False), ('logica_test', False))
# logica_test: the dataset SQLite programs ground to when logica_home is not attached
# (Annotations.Dataset); the user may attach a FILE under that alias as under any other
FLAG_NAMES = ('fa', 'fb', 'tag', 'mode')
FLAG_VALUES = ('a', 'b', 'c', 'ab', 'zz', 'q1')
P_FLAGS = 0.45         # share of histories whose programs use ${flag} in string literals
CUSTOM_TABLES = ('t_alpha', 't_beta', 't_gamma')
REF_BUDGET = 500000
PRED_BUDGET = 150000


def params(tier):
    return THOROUGH if tier == 'thorough' else QUICK


# ------------------------------------------------------------------ program analysis

def concrete_preds(prog):
    out = []
    for r in prog['rules']:
        if r['pred'] not in out:
            out.append(r['pred'])
    return out


def direct_deps(prog):
    """pred -> set of concrete predicates its rules call."""
    names = set(concrete_preds(prog))
    d = collections.OrderedDict((p, set()) for p in concrete_preds(prog))
    for r in prog['rules']:
        d[r['pred']] |= (common.deps_of_rule(r) & names)
    return d


def trans_deps(prog, pred, dd=None):
    dd = dd if dd is not None else direct_deps(prog)
    seen, stack = set(), [pred]
    while stack:
        p = stack.pop()
        for q in sorted(dd.get(p, ())):
            if q not in seen:
                seen.add(q)
                stack.append(q)
    return seen


def _fcalls(exprs):
    """Functional calls in expressions, not looking inside aggregating expressions."""
    out = set()

    def w(e):
        if not isinstance(e, tuple) or not e:
            return
        if e[0] == 'aggx':
            return
        if e[0] == 'fcall':
            out.add(e[1])
            for f, x in e[2]:
                w(x)
            return
        if e[0] in ('lit', 'var'):
            return
        if e[0] in ('list',):
            for x in e[1]:
                w(x)
            return
        if e[0] == 'rec':
            for f, x in e[1]:
                w(x)
            return
        for x in e[1:]:
            if isinstance(x, tuple):
                w(x)
    for e in exprs:
        w(e)
    return out


def _sure_scope(lits, live):
    """Predicates called from positions the compiler cannot drop.  The value of an
    aggregating expression bound to a variable nobody uses is dead code (observed: the
    compiler eliminates the unused variable together with its sub-query), so calls that
    occur only there are not counted."""
    live = set(live)

    def is_def(l):      # v == <expr> for a variable (also the parameter passing of an
        #                 expanded injectible call): dead when nobody uses v
        return l[0] == 'assign' or (l[0] == 'unify' and l[1][0] == 'var')
    for l in lits:
        if l[0] != 'agg' and not is_def(l):
            live |= model.lit_vars(l, deep=True)
    changed = True
    while changed:
        changed = False
        for l in lits:
            new = set()
            if l[0] == 'assign' and l[1] in live:
                new = model.expr_vars(l[2])
            elif l[0] == 'unify' and is_def(l) and l[1][1] in live:
                new = model.expr_vars(l[2])
            elif l[0] == 'agg' and l[1] in live:
                new = model.expr_vars(l[3]) | model.body_vars(l[4])
            if not new <= live:
                live |= new
                changed = True
    sure = set()
    for l in lits:
        k = l[0]
        if k == 'call':
            sure.add(l[1])
            sure |= _fcalls([x for f, x in l[2]])
        elif k in ('cmp', 'in', 'prop'):
            sure |= _fcalls(common.lit_exprs(l))
        elif k in ('assign', 'unify'):
            sure |= _fcalls([x for x in l[1:3] if isinstance(x, tuple)])
        elif k == 'neg':
            sure |= _sure_scope(l[1], live)
        elif k == 'impl':
            sure |= _sure_scope(l[1], live) | _sure_scope(l[2], live)
        elif k == 'or':
            for b in l[1]:
                sure |= _sure_scope(b, live)
        elif k == 'agg' and l[1] in live:
            sure |= _fcalls([l[3]]) | _sure_scope(l[4], live | model.expr_vars(l[3]))
    return sure


def sure_direct_deps(prog):
    names = set(concrete_preds(prog))
    d = collections.OrderedDict((p, set()) for p in concrete_preds(prog))
    hoister = ref.Hoister(prog.get('inj', {}))
    for r in prog['rules']:
        # injectible calls expanded (a callee may ignore its parameter), functional
        # calls turned into joined conjuncts of their scope
        r = hoister.rule(r)
        head = model.head_exprs(r)
        live = set()
        for e in head:
            live |= model.expr_vars(e)
        d[r['pred']] |= ((_sure_scope(r['body'], live) | _fcalls(head)) & names)
    return d


# ------------------------------------------------------------------ program flags

def map_strings(x, fn):
    """Rebuild a model value applying fn to the payload strings of ('lit', ...)."""
    if isinstance(x, tuple):
        if len(x) == 2 and x[0] == 'lit':
            v = x[1]
            if isinstance(v, str):
                return ('lit', fn(v))
            if isinstance(v, (list, tuple)):
                return ('lit', [fn(y) if isinstance(y, str) else y for y in v])
            return x
        return tuple(map_strings(y, fn) for y in x)
    return x


def map_prog_strings(prog, fn):
    p2 = dict(prog)
    rules = []
    for r in prog['rules']:
        r2 = dict(r)
        r2['head'] = map_strings(r['head'], fn)
        r2['body'] = map_strings(r['body'], fn)
        if r.get('value') is not None:
            r2['value'] = map_strings(r['value'], fn)
        rules.append(r2)
    p2['rules'] = rules
    p2['inj'] = collections.OrderedDict(
        (k, map_strings(v, fn)) for k, v in prog.get('inj', {}).items())
    return p2


def flagify(rng, prog, names):
    """Some string literals of the program get a "${flag}" reference (whole literal,
    prefix or suffix): the documented parameter form next to FlagValue."""
    p = rng.choice((0.25, 0.5, 0.8))

    def fn(s):
        if '${' in s or rng.random() >= p:
            return s
        ref_ = '${%s}' % rng.choice(names)
        return rng.choice((ref_, ref_, s + ref_, ref_ + s))
    return map_prog_strings(prog, fn)


def substitute_flags(prog, values):
    """The program the flag values denote: every ${name} replaced by its value."""
    def fn(s):
        for _ in range(len(values) + 1):
            if '${' not in s:
                break
            for k, v in values.items():
                s = s.replace('${%s}' % k, v)
        return s
    return map_prog_strings(prog, fn)


def flagged_preds(prog):
    out = set()
    for r in prog['rules']:
        hit = []

        def fn(s):
            if '${' in s:
                hit.append(1)
            return s
        map_prog_strings({'rules': [r], 'inj': {}}, fn)
        if hit:
            out.add(r['pred'])
    return out


def split_flags(st_):
    """A step may end with a dict of user flag values (`logica.py f.l run P --k=v`)."""
    if st_ and isinstance(st_[-1], dict):
        return list(st_[:-1]), dict(st_[-1])
    return list(st_), {}


# ------------------------------------------------------------------ variant generation

def workflow_rule(rng, prog, must):
    """The documented idiom for writing several predicates: a 0-ary counter over a
    disjunction of argument-less calls.  `must` (a fact table) keeps it non-empty."""
    preds = [p for p in concrete_preds(prog) if p != must]
    rng.shuffle(preds)
    called = [must] + preds[:rng.randint(1, 2)]
    rng.shuffle(called)
    if len(called) == 1 or rng.random() < 0.25:
        body = (('call', called[0], (), ()),)
    else:
        body = (('or', tuple((('call', n, (), ()),) for n in called)),)
    return model.mk_rule('Workflow', (), body, value=('AGG', '+', ('lit', 1)))


def edb_names(prog):
    return [p for p in concrete_preds(prog)
            if all(not r['body'] for r in prog['rules'] if r['pred'] == p)]


def replace_rules(prog, name, new_rules):
    out, done = [], False
    for r in prog['rules']:
        if r['pred'] == name:
            if not done:
                out.extend(new_rules)
                done = True
            continue
        out.append(r)
    p2 = dict(prog)
    p2['rules'] = out
    return p2


def mutate(rng, prog):
    """-> (kind, program) a type-correct modification of `prog` (same signatures)."""
    edbs = edb_names(prog)
    by = collections.OrderedDict()
    for r in prog['rules']:
        by.setdefault(r['pred'], []).append(r)
    kinds = ['facts', 'facts', 'dup_rule']
    multi = [p for p, rs in by.items() if len(rs) >= 2 and p != 'Workflow']
    if multi:
        kinds += ['drop_rule', 'drop_rule']
    filt = [(i, j) for i, r in enumerate(prog['rules']) if len(r['body']) >= 2
            for j, l in enumerate(r['body']) if l[0] == 'cmp']
    if filt:
        kinds += ['drop_filter', 'drop_filter']
    kind = rng.choice(kinds)
    if kind == 'facts' and edbs:
        name = rng.choice(edbs)
        sig = prog['sig'][name]
        types = [t for f, t in sig['fields']] + ([sig['value']] if sig['value'] else [])
        g = gen.Gen(rng)
        n = rng.randint(1, 5)
        pool = [tuple(g.lit_of(t) for t in types) for _ in range(max(1, n // 2 + 1))]
        new = []
        for _ in range(n):
            row = rng.choice(pool)
            head = tuple((f, v) for (f, t), v in zip(sig['fields'], row))
            new.append(model.mk_rule(name, head, (), value=row[-1] if sig['value'] else None))
        return kind, replace_rules(prog, name, new)
    if kind == 'drop_rule' and multi:
        name = rng.choice(multi)
        rs = list(by[name])
        del rs[rng.randrange(len(rs))]
        return kind, replace_rules(prog, name, rs)
    if kind == 'drop_filter' and filt:
        i, j = rng.choice(filt)
        r = dict(prog['rules'][i])
        r['body'] = tuple(l for k, l in enumerate(r['body']) if k != j)
        p2 = dict(prog)
        p2['rules'] = list(prog['rules'])
        p2['rules'][i] = r
        return kind, p2
    # dup_rule: one more copy of a fact or a rule (multiplicities change)
    cands = [p for p in by if p != 'Workflow' and not any(r.get('distinct') for r in by[p])]
    name = rng.choice(cands or list(by))
    rs = list(by[name])
    rs.insert(rng.randrange(len(rs) + 1), rng.choice(rs))
    return 'dup_rule', replace_rules(prog, name, rs)


def tables_of(prog, names):
    """Reference rows of the given predicates (None when not computable)."""
    try:
        ev = ref.Evaluator(prog, budget=REF_BUDGET)
        out = {}
        for n in names:
            cols, rows = common.expected_rows(ev, prog, n)
            out[n] = repr((cols, sorted(map(repr, rows))))
        return out
    except (ref.TooBig, ref.Ambiguous):
        return None


def choose_ground(rng, prog):
    dd = direct_deps(prog)
    called = collections.Counter()
    for p, ds in dd.items():
        for q in ds:
            called[q] += 1
    cands = [p for p in concrete_preds(prog) if called[p] and p != 'Workflow']
    if not cands:
        return []
    idb = [p for p in cands if p not in edb_names(prog)]
    k = rng.choice((1, 2, 2, 3))
    picked = []
    for _ in range(k):
        pool = idb if (idb and rng.random() < 0.65) else cands
        p = rng.choice(pool)
        if p not in picked:
            picked.append(p)
    return picked


def ground_spec(rng, names, alias):
    """-> list of [pred, custom table or None, explicit overwrite spelling]."""
    used, out = set(), []
    for p in names:
        custom = None
        if rng.random() < 0.25:
            c = rng.choice(CUSTOM_TABLES)
            if c not in used:
                used.add(c)
                custom = c
        out.append([p, custom, rng.random() < 0.15])
    return out


def build_case_variants(rng):
    """-> (list of variant JSON, labels, excluded counters)."""
    labels, excluded = set(), collections.Counter()
    base = gen.gen_program(rng, **OPTS)
    for k, v in base.get('excluded', {}).items():
        excluded[k] += v
    fnames = []
    if rng.random() < P_FLAGS:
        fnames = rng.sample(FLAG_NAMES, rng.choice((1, 1, 2)))
        base = flagify(rng, base, fnames)
    edbs = edb_names(base)
    if rng.random() < 0.6 and edbs:
        base['rules'] = list(base['rules']) + [workflow_rule(rng, base, rng.choice(edbs))]
        labels.add('prog:workflow_idiom')
    gnames = choose_ground(rng, base)
    if not gnames:
        return None, labels, excluded
    variants = [{'kind': 'base', 'prog': base}]
    base_tabs = tables_of(base, gnames)
    for _ in range(rng.choice((1, 2, 2))):
        if len(variants) == 2 and rng.random() < 0.45:
            other = gen.gen_program(rng, **OPTS)
            if fnames:
                other = flagify(rng, other, fnames)
            oe = edb_names(other)
            if rng.random() < 0.6 and oe:
                other['rules'] = list(other['rules']) + [
                    workflow_rule(rng, other, rng.choice(oe))]
            dd = direct_deps(other)
            if any(g in dd and any(g in ds for ds in dd.values()) for g in gnames):
                variants.append({'kind': 'independent', 'prog': other})
                continue
        for attempt in range(4):
            kind, p2 = mutate(rng, variants[rng.randrange(len(variants))]['prog']
                              if rng.random() < 0.3 else base)
            tabs = tables_of(p2, gnames)
            if base_tabs is None or tabs is None or tabs != base_tabs:
                break
        variants.append({'kind': kind, 'prog': p2})
    out = []
    defaults = [[f, rng.choice(FLAG_VALUES)] for f in fnames]
    for v in variants:
        if fnames and rng.random() < 0.3:
            # the same flags with other default values
            defaults = [[f, rng.choice(FLAG_VALUES)] for f in fnames]
            labels.add('flags:variants_differ_in_defaults')
        alias, home_memory = rng.choice(ALIASES)
        defined = set(concrete_preds(v['prog']))
        names = [g for g in gnames if g in defined]
        out.append({'kind': v['kind'], 'alias': alias, 'home_memory': home_memory,
                    'dataset_ann': alias == 'vault' or rng.random() < 0.15,
                    'ground': ground_spec(rng, names, alias),
                    'flags': [list(d) for d in defaults],
                    'prog': model.prog_to_json(dict(v['prog'], labels=[], excluded={}))})
    return out, labels, excluded


# ------------------------------------------------------------------ the session

class Variant(object):
    def __init__(self, j, db):
        self.j = j
        self.kind = j.get('kind', '?')
        self.prog = model.prog_from_json(j['prog'])
        self.alias = j.get('alias', 'logica_home')
        self.ground = collections.OrderedDict()       # pred -> unqualified table name
        self.flags = collections.OrderedDict((f, d) for f, d in j.get('flags', ()))
        self.flag_ann = ['@DefineFlag("%s", "%s");' % (f, d)
                         for f, d in self.flags.items()]
        ann = ['@AttachDatabase("%s", "%s");' % (self.alias, DB_MARK)]
        if j.get('home_memory') and self.alias != 'logica_home':
            # the default alias is taken by another (transient) database
            ann.insert(0, '@AttachDatabase("logica_home", ":memory:");')
        if j.get('dataset_ann'):
            ann.append('@Dataset("%s");' % self.alias)
        for p, custom, explicit in j['ground']:
            self.ground[p] = custom or p
            args = [p]
            if custom:
                args.append('"%s.%s"' % (self.alias, custom))
            if explicit:
                args.append('overwrite: true')
            ann.append('@Ground(%s);' % ', '.join(args))
        self.prog['ann'] = self.flag_ann + ann
        self.template = model.print_program(self.prog)
        self.text = self.template.replace(DB_MARK, db)
        self.path = None         # program file (written by the session)
        self.preds = concrete_preds(self.prog)
        dd, sd = direct_deps(self.prog), sure_direct_deps(self.prog)
        self.deps = {p: trans_deps(self.prog, p, dd) for p in self.preds}
        self.sure = {p: trans_deps(self.prog, p, sd) for p in self.preds}
        self._rules = None
        self.flagged = flagged_preds(self.prog)
        self.views = {}

    def effective(self, user):
        vals = collections.OrderedDict(self.flags)
        for k in sorted(user or {}):
            if k not in vals:
                raise ValueError('flag %s is not defined by the variant' % k)
            vals[k] = user[k]
        return vals

    def at(self, user=None):
        """The variant under the given user flag values (memoised)."""
        vals = self.effective(user)
        key = tuple(vals.items())
        if key not in self.views:
            self.views[key] = View(self, vals, key)
        return self.views[key]

    def flag_reaches(self, g):
        """A ${flag} occurs in the statement that writes grounded g: in its own rules
        or in those of not grounded predicates compiled into it."""
        dd = direct_deps(self.prog)
        seen, stack = set(), [g]
        while stack:
            p = stack.pop()
            if p in seen:
                continue
            seen.add(p)
            if p in self.flagged:
                return True
            stack.extend(q for q in sorted(dd.get(p, ())) if q not in self.ground)
        return False

    def rules(self):
        if self._rules is None:
            self._rules = drive.parse_rules(self.text)
        return self._rules

    def plain_rules(self):
        """The same program without @AttachDatabase/@Dataset/@Ground."""
        return drive.parse_rules(model.print_program(dict(self.prog,
                                                          ann=list(self.flag_ann))))

    def gdeps(self, pred):
        """Grounded predicates `pred` transitively depends on (pred itself excluded)."""
        return [g for g in self.ground if g in self.deps[pred] and g != pred]

    def keyless_aggregate(self, pred):
        return any(r['pred'] == pred and not r['head'] and r.get('value') is not None
                   and r['value'][0] == 'AGG' for r in self.prog['rules'])


class View(object):
    """One variant under one assignment of flag values: the denoted program (every
    ${flag} replaced by its value) and its reference tables."""

    def __init__(self, v, vals, key):
        self.v = v
        self.key = key
        self.vals = vals
        self.prog = substitute_flags(v.prog, vals) if v.flags else v.prog
        self.exp = {}            # pred -> (cols, rows) | None
        self.why = {}
        try:
            self.ev = ref.Evaluator(self.prog, budget=REF_BUDGET)
        except Exception:        # pragma: no cover
            self.ev = None
        for p in v.preds:
            bad = [q for q in v.preds if q in v.deps[p] and self.exp.get(q, 0) is None
                   and self.why[q] == 'ref_too_big']
            if bad:
                self.exp[p] = None
                self.why[p] = 'ref_too_big'
                continue
            self.ev.budget = ref.Budget(PRED_BUDGET)      # per predicate (results cached)
            try:
                cols, rows = common.expected_rows(self.ev, self.prog, p)
                if len(rows) > common.MAX_ROWS:
                    raise ref.TooBig()
                self.exp[p] = (cols, rows)
            except ref.TooBig:
                self.exp[p] = None
                self.why[p] = 'ref_too_big'
            except ref.Ambiguous:
                self.exp[p] = None
                self.why[p] = 'ref_ambiguous'
        self.ev.budget = ref.Budget(REF_BUDGET)

    def known(self, pred):
        """Reference values available for pred and all its grounded dependencies."""
        v = self.v
        if pred not in self.exp:
            return 'undefined_predicate'
        if [g for g in v.ground if g in v.sure[pred] and g != pred] != \
                v.gdeps(pred):
            return 'excluded:grounded_dependency_only_through_unused_aggregate_value'
        if self.exp[pred] is not None and not self.exp[pred][0][:-1] and \
                not self.exp[pred][1] and v.keyless_aggregate(pred):
            # SQL answers one null row, "no rows" is what the rules denote: C02's subject
            return 'excluded:keyless_aggregate_over_nothing'
        for q in [pred] + v.gdeps(pred):
            if self.exp[q] is None:
                return self.why[q]
        return None

    def runnable(self):
        return [p for p in self.v.preds if self.known(p) is None]


def row_dicts(ev, pred, rows_tuples):
    fields = ev.fields(pred)
    return [collections.OrderedDict(zip(fields, r)) for r in rows_tuples]


class Session(object):
    """Executes steps against one database file and keeps the model.  Shared by the
    state machine and by check_case, so a stored history replays exactly."""

    def __init__(self, variants_json):
        drive.enable_library_cache()
        self.dir = tempfile.mkdtemp(prefix='lv_c17_')
        self.db = os.path.join(self.dir, 'home.db')
        self.variants = [Variant(j, self.db) for j in variants_json]
        for i, v in enumerate(self.variants):
            v.path = os.path.join(self.dir, 'variant%d.l' % i)
            with open(v.path, 'w') as f:
                f.write(v.text)
        self.model = collections.OrderedDict()   # lower(table) -> dict(cols, rows, by)
        self.reader = None
        self.dead = None
        self.labels = set()
        self.nontrivial = False
        self.steps_done = []
        self.n_runs = 0

    # -- plumbing
    def close(self):
        if self.reader is not None:
            try:
                self.reader.close()
            except Exception:
                pass
            self.reader = None
        shutil.rmtree(self.dir, ignore_errors=True)

    def get_reader(self):
        if self.reader is None:
            self.reader = sqlite3.connect(self.db, check_same_thread=False)
        return self.reader

    def reopen(self):
        if self.reader is not None:
            self.reader.close()
            self.reader = None
        self.get_reader()

    def read_file(self):
        con = self.get_reader()
        names = [r[0] for r in con.execute(
            "select name from sqlite_master where type = 'table' order by name")]
        out = collections.OrderedDict()
        for n in names:
            cur = con.execute('select * from "%s"' % n.replace('"', '""'))
            out[n.lower()] = ([d[0] for d in cur.description], cur.fetchall())
        return out

    def describe(self, upto=None):
        lines = ['history: %s' % json.dumps(self.steps_done if upto is None else upto)]
        for i, v in enumerate(self.variants):
            lines.append('--- variant %d (%s)\n%s' % (i, v.kind, v.template))
        return '\n'.join(lines)

    # -- expectations
    def expect_written(self, vi, view, written, exps=None):
        """Model update: tables of the grounded predicates in `written` get the value
        they have under variant vi with the flag values of `view` (or under the
        overriding evaluator)."""
        v = self.variants[vi]
        fkey = [list(x) for x in view.key]
        for g in written:
            cols, rows = exps[g] if exps is not None else view.exp[g]
            key = v.ground[g].lower()
            old = self.model.get(key)
            if old is not None and (old['by'][0] != vi or old['by'][2] != fkey):
                if old['by'][0] != vi:
                    self.labels.add('hist:overwrite_other_variant')
                else:
                    self.labels.add('hist:overwrite_other_flag_values')
                if old['cols'] != cols or canon.rows_match(rows, _raw(old['rows'])) \
                        is not None:
                    self.labels.add('hist:overwrite_changes_contents')
                    if old['by'][0] == vi:
                        self.labels.add('hist:flag_values_change_contents')
                    self.nontrivial = True
                if old['by'][1] != g:
                    self.labels.add('hist:table_reused_by_other_predicate')
            elif old is not None:
                self.labels.add('hist:rewrite_same_variant')
            self.model[key] = {'cols': list(cols), 'rows': list(rows),
                               'by': [vi, g, fkey], 'table': v.ground[g]}

    def compare_file(self, before, asked=()):
        """-> list of (bucket, detail) comparing the file with self.model."""
        actual = self.read_file()
        out = []
        for key, m in self.model.items():
            if key not in actual:
                out.append(('file:missing_table', 'table %s expected (value of %s under '
                            'variant %d%s) but absent' % (
                                m['table'], m['by'][1], m['by'][0], _fl(m['by'][2]))))
                continue
            cols, rows = actual[key]
            if cols != m['cols']:
                out.append(('file:columns_differ', 'table %s: expected columns %r, found '
                            '%r' % (m['table'], m['cols'], cols)))
                continue
            d = canon.rows_match(m['rows'], rows)
            if d is not None:
                why = 'other'
                b = before.get(key)
                if b is not None and b[0] == cols and sorted(map(repr, b[1])) == sorted(
                        map(repr, rows)):
                    why = 'stale'
                for vi, p, view in asked:
                    v = self.variants[vi]
                    if v.ground.get(p, '').lower() == key and view.exp.get(p) and \
                            canon.rows_match(view.exp[p][1], rows) is None:
                        why = 'asked_predicate_written'
                out.append(('file:rows_differ:' + why,
                            'table %s should hold the value of %s under variant %d%s\n%s'
                            '\nexpected %r\nactual   %r' % (
                                m['table'], m['by'][1], m['by'][0], _fl(m['by'][2]), d,
                                sorted(map(repr, m['rows']))[:12],
                                sorted(map(repr, rows))[:12])))
        for key in actual:
            if key not in self.model:
                why = 'other'
                for vi, p, view in asked:
                    if self.variants[vi].ground.get(p, '').lower() == key:
                        why = 'asked_predicate_written'
                out.append(('file:unexpected_table:' + why,
                            'table %s exists in the file (columns %r, %d rows) but no run '
                            'so far had to write it' % (key, actual[key][0],
                                                       len(actual[key][1]))))
        return out

    @staticmethod
    def compare_result(pred, exp, hdr, rows):
        cols, erows = exp
        if hdr != cols and not (not cols and len(hdr) == 1):
            return [('result:columns_differ',
                     'predicate %s: expected columns %r got %r' % (pred, cols, hdr))]
        if not cols:
            rows = [() for _ in rows]
        d = canon.rows_match(erows, rows)
        if d is not None:
            return [('result:rows_differ', 'predicate %s: %s\nexpected %r\nactual   %r' % (
                pred, d, sorted(map(repr, erows))[:12], sorted(map(repr, rows))[:12]))]
        return []

    @staticmethod
    def compare_result_csv(pred, exp, hdr, rows):
        cols, erows = exp
        if hdr != cols and not (not cols and len(hdr) == 1):
            return [('result:columns_differ',
                     'predicate %s: expected columns %r, logica.py printed %r' % (
                         pred, cols, hdr))]
        if not cols:
            rows = [() for _ in rows]
        e = collections.Counter(tuple(csv_cell(x) for x in r) for r in erows)
        a = collections.Counter(tuple(csv_cell(x, True) for x in r) for r in rows)
        if e != a:
            return [('result:rows_differ', 'predicate %s (CSV printed by logica.py): '
                     'expected-only %r actual-only %r' % (
                         pred, sorted((e - a).items())[:6], sorted((a - e).items())[:6]))]
        return []

    # -- steps
    def step(self, full):
        """-> ('ok'|'skip'|'inconclusive'|'fail', info)   info: reason | failures.
        A step may end with a dict: the user flag values of that run."""
        if self.dead:
            return 'skip', 'dead:' + self.dead
        st_, user = split_flags(full)
        kind = st_[0]
        if kind == 'reopen':
            self.steps_done.append(list(st_))
            self.reopen()
            self.labels.add('step:reopen')
            fails = self.compare_file(self.read_file())
            return ('fail', fails) if fails else ('ok', None)
        vi = st_[1]
        v = self.variants[vi]
        view = v.at(user)
        preds = [st_[2]] if kind in ('run', 'probe') else list(st_[2])
        for p in preds:
            why = view.known(p)
            if why:
                return ('skip' if why.startswith('excluded:') else 'inconclusive'), why
        # 1. compile and derive the expectation; the file is not touched yet
        try:
            if kind == 'run':
                plan = self.plan_run(vi, view, user, preds[0],
                                     cli=(len(st_) > 3 and st_[3] == 'cli'))
            elif kind == 'probe':
                plan = self.plan_run(vi, view, user, preds[0], probe=(st_[3], st_[4]))
            elif kind == 'run_many':
                plan = self.plan_many(vi, view, user, preds)
            else:
                raise ValueError('unknown step %r' % (full,))
        except Skip as e:
            return 'skip', 'excluded_run:' + str(e)
        except (ref.TooBig, ref.Ambiguous):
            return 'inconclusive', 'ref_too_big'
        except drive.DIAGNOSTICS as e:
            return self.refused(v, user, preds, e, full)
        except ValueError:
            raise
        except Exception as e:
            self.steps_done.append(json.loads(json.dumps(full)))
            return 'fail', [('internal:' + drive.exc_frame(e),
                             traceback.format_exc()[-1500:])]
        # 2. execute
        self.steps_done.append(json.loads(json.dumps(full)))
        if user:
            self.labels.add('run:user_flag_values')
        if kind in ('run', 'run_many') and self.steps_done.count(self.steps_done[-1]) > 1:
            self.labels.add('hist:exact_repeat')
            self.nontrivial = True
        before = self.read_file() if os.path.exists(self.db) else {}
        try:
            fails = plan()
        except drive.Interrupted:
            self.dead = 'sqlite_budget'
            return 'inconclusive', 'sqlite_budget'
        except sqlite3.Error as e:
            self.dead = 'run_error'
            if self.fails_without_ground(v, user, preds):
                # the SQL of the program is broken with or without grounding: C01/C02
                return 'inconclusive', 'program_fails_also_without_ground:' + \
                    sqlite_class(e)
            return 'fail', [('run_error:%s:%s' % (type(e).__name__, sqlite_class(e)),
                             'executing the statements of step %r raised %s: %s' % (
                                 full, type(e).__name__, e))]
        except Exception as e:
            self.dead = 'internal'
            return 'fail', [('internal:' + drive.exc_frame(e),
                             traceback.format_exc()[-1500:])]
        self.n_runs += 1
        fails = fails + self.compare_file(before, asked=[(vi, p, view) for p in preds])
        if fails:
            self.dead = 'failed'
            return 'fail', fails
        return 'ok', None

    def refused(self, v, user, preds, e, st_):
        """The compiler refused the program with a diagnostic.  Whether the program
        itself is acceptable is not this property's business (C01/C19): only a refusal
        that disappears when the @Ground/@AttachDatabase/@Dataset lines are removed is
        reported."""
        msg = common.first_line(e)
        for p in preds:
            try:
                drive.compile_rules(v.plain_rules(), p, flags=user)
            except drive.DIAGNOSTICS as e2:
                return 'inconclusive', 'program_refused_also_without_ground:%s' % \
                    type(e2).__name__
            except Exception:
                return 'inconclusive', 'program_crashes_compiler_also_without_ground'
        self.steps_done.append(json.loads(json.dumps(st_)))
        return 'fail', [('ground_rejected_valid:%s:%s' % (type(e).__name__,
                                                          common.msg_class(msg)),
                         'the compiler refuses the program only with its @Ground '
                         'annotations: %s\n%s' % (type(e).__name__, msg))]

    @staticmethod
    def fails_without_ground(v, user, preds):
        for p in preds:
            try:
                prog, _ = drive.compile_rules(v.plain_rules(), p, flags=user)
                drive.execute(prog)
            except (sqlite3.Error, drive.Interrupted) + drive.DIAGNOSTICS:
                return True
        return False

    def run_labels(self, v, pred, gdeps, view=None):
        self.labels.add('run:grounded_deps=%d' % min(len(gdeps), 3))
        self.flag_labels(v, gdeps, view)
        if pred in v.ground:
            self.labels.add('run:asked_grounded_itself')
            if v.ground[pred].lower() in self.model:
                self.labels.add('run:asked_grounded_itself_table_exists')
        dd = direct_deps(v.prog)
        if any(set(v.ground) & dd[g] for g in gdeps):
            self.labels.add('run:grounded_reads_grounded')
        if any(g not in dd[pred] for g in gdeps):
            self.labels.add('run:grounded_dep_only_via_intermediate')

    def flag_labels(self, v, gdeps, view):
        if gdeps:
            self.labels.add('run:writes_under_alias=' + v.alias)
        if v.flags and view is not None:
            hit = [g for g in gdeps if v.flag_reaches(g)]
            if hit:
                self.labels.add('run:flag_in_statement_of_written_table')
                base = v.at({})
                if view.key != base.key and any(
                        view.exp[g] != base.exp[g] for g in hit
                        if view.exp.get(g) and base.exp.get(g)):
                    self.labels.add('run:user_flag_value_changes_written_table')

    SYNTH = {'N': 1, 'S': 'a', 'LN': [1], 'LS': ['a'], 'R': {'a': 1, 'b': 'a'}}

    def cannot_influence(self, view, preds, g, others):
        """The contents of the table of g cannot matter to this run: with the relation
        of g emptied and with it doubled (one invented row when it is empty) the
        requested predicates and the other tables the run writes keep their value."""
        v = view.v
        cols, rows = view.exp[g]
        if rows:
            alts = [[], list(rows) * 2]
        else:
            sig = (v.prog.get('sig') or {}).get(g)
            if not sig:
                return False
            types = [t for f, t in sig['fields']] + ([sig['value']] if sig['value'] else [])
            if len(types) != len(cols) or any(t not in self.SYNTH for t in types):
                return False
            alts = [[tuple(self.SYNTH[t] for t in types)]]

        def norm(t):
            return (list(t[0]), sorted(map(repr, t[1])))
        for trows in alts:
            ev2 = ref.Evaluator(view.prog, budget=REF_BUDGET,
                                overrides={g: row_dicts(view.ev, g, trows)})
            for q in list(preds) + list(others):
                if q == g:
                    continue        # g requested itself: printed, not written
                if norm(common.expected_rows(ev2, view.prog, q)) != norm(view.exp[q]):
                    return False
        return True

    def skip_if_dead_dependency(self, view, preds, gdeps, materialised):
        """A grounded predicate the requested ones mention only in dead code (the value
        of an aggregate nobody uses, a column of an inlined predicate nobody reads) is
        not compiled into the script at all.  Whether the run "depends on" it is then a
        matter of words: nothing is claimed for such a run."""
        missing = [g for g in gdeps if g not in materialised]
        if missing and all(self.cannot_influence(view, preds, g,
                                                 [q for q in gdeps if q not in missing])
                           for g in missing):
            raise Skip('grounded_dependency_without_influence_not_materialised')

    def plan_run(self, vi, view, user, pred, probe=None, cli=False):
        v = self.variants[vi]
        prog, _ = drive.compile_rules(v.rules(), pred, flags=user)
        ex = prog.execution
        # logica.py main, sqlite branch
        statements = [ex.preamble] + list(ex.defines_and_exports) + [ex.main_predicate_sql]
        gdeps = v.gdeps(pred)
        self.skip_if_dead_dependency(view, [pred], gdeps, ex.table_to_export_map)
        exps, exp_main, tamper_at, labels = None, view.exp[pred], None, set()
        if probe:
            g, how = probe
            if g not in gdeps:
                raise ValueError('probe target %s is not a grounded dependency' % g)
            cols, rows = view.exp[g]
            trows = list(rows) * 2 if how == 'double' else []
            ev2 = ref.Evaluator(view.prog, budget=REF_BUDGET,
                                overrides={g: row_dicts(view.ev, g, trows)})
            exps = {g: (cols, trows)}
            for q in gdeps:
                if q != g:
                    exps[q] = common.expected_rows(ev2, view.prog, q)
            exp_main = common.expected_rows(ev2, view.prog, pred)
            if v.keyless_aggregate(pred) and not exp_main[1]:
                # a key-less aggregate over no rows (SQL: one null row) is C02's subject
                raise Skip('keyless_aggregate_over_emptied_table')
            marker = ex.table_to_export_map.get(g)
            idx = [i for i, s in enumerate(statements[:-1]) if s == marker]
            tamper_at = idx[0] if len(idx) == 1 else -1
            labels.add('probe:' + how)
            if exp_main != view.exp[pred] or any(exps[q] != view.exp[q] for q in gdeps
                                                 if q != g):
                labels.add('probe:changes_a_dependant')

        def execute():
            self.labels.add('step:' + ('probe' if probe else 'run'))
            self.labels |= labels
            self.run_labels(v, pred, gdeps, view)
            if cli:
                self.labels.add('run:through_logica_py_main')
                hdr, rows = run_cli(v.path, pred, user)
                self.expect_written(vi, view, gdeps)
                if rows:
                    self.labels.add('run:result_nonempty')
                return self.compare_result_csv(pred, exp_main, hdr, rows)
            if tamper_at == -1:
                return [('probe:export_statement_of_dependency_not_found',
                         'grounded dependency %s of %s: its export statement does not '
                         'occur exactly once in the script' % (probe[0], pred))]
            con = drive.connect()
            try:
                # common/sqlite3_logica.py RunSqlScript
                cur = con.cursor()
                for i, s in enumerate(statements[:-1]):
                    cur.executescript(s)
                    if tamper_at == i:
                        self.tamper(v.ground[probe[0]], probe[1])
                cur.execute(statements[-1])
                rows = cur.fetchall()
                hdr = [d[0] for d in cur.description]
            except sqlite3.OperationalError as e:
                if 'interrupted' in str(e):
                    raise drive.Interrupted()
                raise
            finally:
                con.close()
            self.expect_written(vi, view, gdeps, exps=exps)
            if rows:
                self.labels.add('run:result_nonempty')
            return self.compare_result(pred, exp_main, hdr, rows)
        return execute

    def tamper(self, table, how):
        con = self.get_reader()
        q = '"%s"' % table.replace('"', '""')
        if how == 'double':
            con.execute('insert into %s select * from %s' % (q, q))
        else:
            con.execute('delete from %s' % q)
        con.commit()

    def plan_many(self, vi, view, user, preds):
        v = self.variants[vi]
        # tools/run_in_terminal.py RunMany
        with drive.quiet():
            prog = drive.universe.LogicaProgram(copy.deepcopy(v.rules()),
                                                user_flags=dict(user))
            exs = []
            for p in preds:
                prog.FormattedPredicateSql(p)
                exs.append(prog.execution)
        written = []
        for p in preds:
            for g in v.gdeps(p):
                if g not in written:
                    written.append(g)
        # (the entry of a requested predicate in its own export map is its final SELECT,
        # not a CREATE TABLE: it does not count as materialised)
        self.skip_if_dead_dependency(view, preds, written,
                                     set().union(*[set(e.table_to_export_map) - {q}
                                                   for e, q in zip(exs, preds)]))

        def execute():
            self.labels.add('step:run_many')
            if any(p in written for p in preds):
                self.labels.add('run_many:asked_predicate_is_also_grounded_dependency')
            self.labels.add('run_many:grounded_deps=%d' % min(len(written), 3))
            self.flag_labels(v, written, view)
            con = drive.connect()

            def runner(sql, engine, is_final):
                try:
                    if is_final:
                        c = con.execute(sql)
                        return [d[0] for d in c.description], c.fetchall()
                    con.executescript(sql)
                except sqlite3.OperationalError as e:
                    if 'interrupted' in str(e):
                        raise drive.Interrupted()
                    raise
            try:
                with drive.quiet():
                    res = drive.concertina_lib.ExecuteLogicaProgram(
                        exs, runner, 'sqlite', display_mode='silent')
            finally:
                con.close()
            self.expect_written(vi, view, written)
            fails = []
            for p in preds:
                if p not in res:
                    fails.append(('result:missing',
                                  'run_many returned no result for %s' % p))
                    continue
                hdr, rows = res[p]
                fails += self.compare_result(p, view.exp[p], list(hdr),
                                             [tuple(r) for r in rows])
            return fails
        return execute


class Skip(Exception):
    pass


def sqlite_class(e):
    m = str(e)
    for k in ('already exists', 'no such table', 'no such column', 'syntax error',
              'is locked', 'already in use', 'logica.py exited', 'printed nothing',
              'user-defined', 'malformed JSON', 'unknown database'):
        if k in m:
            return k.replace(' ', '_')
    return common.msg_class(m)


class CliError(sqlite3.Error):
    pass


def csv_cell(x, printed=False):
    """Normal form of a value as csv.writer prints it (None -> '', numbers by value,
    composite values up to JSON text encoding)."""
    if printed:
        if x[:1] in ('[', '{'):
            d = canon.decode(x)
            if not isinstance(d, str):
                return 'J' + json.dumps(canon.strict(d), sort_keys=True)
        try:
            f = float(x)
            if f == int(f):
                return str(int(f))
        except (ValueError, OverflowError):
            pass
        return x
    if x is None:
        return ''
    if isinstance(x, bool):
        return str(int(x))
    if isinstance(x, (list, dict, tuple)):
        return 'J' + json.dumps(canon.strict(canon.decode(x)), sort_keys=True)
    if isinstance(x, float) and x == int(x):
        return str(int(x))
    return str(x)


def run_cli(path, pred, user=None):
    """`python logica.py <path> run_to_csv <pred>` executed in this process (runpy, so
    the script's own __main__ branch and main() run); -> (header, rows of strings).
    The only interference: connections it opens get the instruction budget."""
    import contextlib
    import csv
    import io
    import runpy
    import sys
    sl = drive.sqlite3_logica
    real_connect = sl.SqliteConnect
    script = os.path.join(core.repo_path(), 'logica.py')

    def budgeted(*a, **kw):
        con = real_connect(*a, **kw)
        state = [0]

        def handler():
            state[0] += 1
            return 1 if state[0] * 10000 > drive.SQLITE_OP_BUDGET else 0
        con.set_progress_handler(handler, 10000)
        return con
    out, err = io.StringIO(), io.StringIO()
    argv = sys.argv
    sl.SqliteConnect = budgeted
    rc = 0
    try:
        sys.argv = [script, path, 'run_to_csv', pred] + [
            '--%s=%s' % (k, user[k]) for k in sorted(user or {})]
        with contextlib.redirect_stdout(out), contextlib.redirect_stderr(err):
            try:
                runpy.run_path(script, run_name='__main__')
            except SystemExit as e:
                rc = e.code or 0
    except sqlite3.OperationalError as e:
        if 'interrupted' in str(e):
            raise drive.Interrupted()
        raise
    finally:
        sys.argv = argv
        sl.SqliteConnect = real_connect
    if rc:
        raise CliError('logica.py exited with %r: %s' % (rc, err.getvalue()[-300:]))
    text = out.getvalue()
    if text.endswith('\n'):
        text = text[:-1]           # the newline print() adds after the CSV text
    rows = list(csv.reader(io.StringIO(text)))
    if not rows:
        raise CliError('logica.py printed nothing')
    return rows[0], [tuple(r) for r in rows[1:]]


def _fl(fkey):
    return (' with flag values %s' % ', '.join('%s=%s' % (k, v) for k, v in fkey)) \
        if fkey else ''


def _raw(rows):
    """Reference rows presented as if read from SQLite (for multiset comparison of two
    reference tables through canon.rows_match)."""
    def enc(x):
        if isinstance(x, (list, dict)):
            return json.dumps(x)
        return x
    return [tuple(enc(x) for x in r) for r in rows]


# ------------------------------------------------------------------ check_case / minimise

def run_history(case):
    """-> (failures, session labels, nontrivial, executed steps)."""
    s = Session(case['variants'])
    try:
        fails = []
        for st_ in case['steps']:
            status, info = s.step(st_)
            if status == 'fail':
                fails = info
                break
        return fails, set(s.labels), s.nontrivial, list(s.steps_done), s.describe()
    finally:
        s.close()


def check_case(case):
    fails, _, _, _, desc = run_history(case)
    seen, out = set(), []
    for b, d in fails:
        if b not in seen:
            seen.add(b)
            out.append((b, d + '\n' + desc))
    return out


def well_formed(case):
    """Every called / grounded predicate of every variant is defined (a reduction that
    drops a definition turns the call into a read of an external table)."""
    for vj in case['variants']:
        prog = model.prog_from_json(vj['prog'])
        defined = set(concrete_preds(prog)) | set(prog.get('inj', {}))
        for r in prog['rules']:
            if not common.deps_of_rule(r) <= defined:
                return False
        if any(g[0] not in defined for g in vj['ground']):
            return False
    return True


def minimise(case, bucket):
    def fails(c):
        try:
            return well_formed(c) and any(b == bucket for b, d in check_case(c))
        except Exception:
            return False
    case = json.loads(json.dumps(case))
    steps = case['steps']
    if len(steps) > 1:
        last = steps[-1]
        head = core.ddmin(steps[:-1] + [None],
                          lambda hs: fails(dict(case, steps=[x for x in hs if x] + [last])),
                          max_tests=24)
        case['steps'] = [x for x in head if x] + [last]
        if not fails(case):
            case['steps'] = steps
    # variants not referenced any more keep their index (steps refer to indices): only
    # their programs are emptied of everything but one fact
    used = set(s[1] for s in case['steps'] if len(s) > 1)
    for vi, vj in enumerate(case['variants']):
        if vi not in used:
            c2 = json.loads(json.dumps(case))
            c2['variants'][vi]['prog']['rules'] = vj['prog']['rules'][:1]
            c2['variants'][vi]['prog']['inj'] = {}
            c2['variants'][vi]['ground'] = []
            if fails(c2):
                case = c2
            continue
        rules = vj['prog']['rules']
        if len(rules) < 2:
            continue

        def with_rules(rs, vi=vi):
            c2 = json.loads(json.dumps(case))
            c2['variants'][vi]['prog']['rules'] = list(rs)
            return c2
        kept = core.ddmin(rules, lambda rs: fails(with_rules(rs)), max_tests=40)
        if len(kept) < len(rules):
            case = with_rules(kept)
        if len(case['variants'][vi]['ground']) > 1:
            def with_ground(gs, vi=vi):
                c2 = json.loads(json.dumps(case))
                c2['variants'][vi]['ground'] = list(gs)
                return c2
            gk = core.ddmin(case['variants'][vi]['ground'],
                            lambda gs: fails(with_ground(gs)), max_tests=8)
            case = with_ground(gk)
    return case


# ------------------------------------------------------------------ shard

def in_fresh_thread(fn, *args):
    """Speed only: see core.deep_call (big-frame trampoline against data-stack chunk
    thrash; the first remedy tried here was a new thread)."""
    return core.deep_call(fn, *args)


class Hist(object):
    def __init__(self, ctx, col):
        self.ctx, self.col = ctx, col
        self.s = None
        self.failed_buckets = set()

    def begin(self, rng):
        self.end()
        variants, labels, excluded = build_case_variants(rng)
        for k, n in excluded.items():
            self.col.excluded[k] += n
        self.variants = variants
        self.gen_labels = labels
        self.inconc = []
        if variants is None:
            self.col.exclude('no_predicate_with_a_dependant_to_ground')
            return
        self.s = Session(variants)
        # the user flag values the runs of this history may pass (besides none)
        self.flag_sets = [{}]
        names = [f for f, d in variants[0].get('flags', ())]
        if names:
            for _ in range(rng.choice((1, 2))):
                fs = {n: rng.choice(FLAG_VALUES) for n in names if rng.random() < 0.7}
                if fs and fs not in self.flag_sets:
                    self.flag_sets.append(fs)
        for v in self.s.variants:
            for p in v.preds:
                why = v.at({}).known(p)
                if why and why.startswith('excluded:'):
                    self.col.exclude(why[len('excluded:'):])
                elif why:
                    self.col.inconc(why)

    def end(self):
        s, self.s = self.s, None
        if s is None:
            return
        try:
            if not s.steps_done:
                return
            labels = set(s.labels) | self.gen_labels
            labels.add('steps:%d' % min(len(s.steps_done), 12))
            labels.add('runs:%d' % min(s.n_runs, 8))
            labels.add('variants:%d' % len(s.variants))
            for v in s.variants[1:]:
                labels.add('variant:' + v.kind)
            for v in s.variants:
                labels.add('alias:' + v.alias + ('+logica_home_in_memory'
                                                 if v.j.get('home_memory') else ''))
                if any(t != p for p, t in v.ground.items()):
                    labels.add('ground:custom_table_name')
                labels.add('ground:n=%d' % len(v.ground))
                labels.add('flags:defined=%d' % len(v.flags))
                if v.flags and v.flagged:
                    labels.add('flags:referenced_in_rules')
            if s.dead and s.dead not in ('failed', 'run_error', 'internal'):
                labels.add('ended:' + s.dead)
            key = ([v.template for v in s.variants], s.steps_done)
            self.col.case(key, s.nontrivial and s.n_runs >= 2, sorted(labels),
                          sample={'steps': s.steps_done,
                                  'variants': [v.template for v in s.variants]})
        finally:
            s.close()

    def do(self, st_):
        s = self.s
        if s is None or s.dead:
            return
        status, info = in_fresh_thread(s.step, st_)
        if status == 'inconclusive':
            self.col.inconc(info)
        elif status == 'skip' and str(info).startswith('excluded_run:'):
            self.col.exclude(info[len('excluded_run:'):])
        elif status == 'fail':
            case = {'variants': self.variants, 'steps': list(s.steps_done)}
            if st_ not in case['steps'][-1:]:
                case['steps'].append(json.loads(json.dumps(st_)))
            desc = s.describe(case['steps'])
            seen = set()
            for b, d in info:
                if b in seen:
                    continue
                seen.add(b)
                self.col.fail(b, case, d + '\n' + desc)


def shard(ctx, col):
    drive.enable_library_cache()
    prm = params(ctx.tier)
    H = Hist(ctx, col)
    idx = st.integers(0, 10 ** 6)

    def pick_variant(i):
        return i % len(H.s.variants)

    def pick_flags(i):
        opts = [{}] + H.flag_sets[1:] * 2
        return dict(opts[i % len(opts)])

    def fl(user):
        return [user] if user else []

    def pick_pred(vi, i, grounded_bias, user=None):
        v = H.s.variants[vi]
        cands = v.at(user).runnable()
        if not cands:
            return None
        if grounded_bias == 1:
            # predicates with grounded dependencies (the writers)
            c2 = [p for p in cands if v.gdeps(p)]
            cands = c2 or cands
        elif grounded_bias == 2:
            c2 = [p for p in cands if p in v.ground]
            cands = c2 or cands
        return cands[i % len(cands)]

    class Machine(RuleBasedStateMachine):
        def __init__(self):
            super().__init__()
            self.last = None

        @initialize(rng=st.randoms(use_true_random=True))
        def setup(self, rng):
            in_fresh_thread(H.begin, rng)

        def alive(self):
            return H.s is not None and not H.s.dead

        @rule(vi=idx, pi=idx, bias=st.sampled_from([0, 1, 1, 1, 2]),
              mode=st.sampled_from(['script', 'script', 'cli']), fi=idx)
        def run(self, vi, pi, bias, mode, fi):
            if not self.alive():
                return
            vi = pick_variant(vi)
            user = pick_flags(fi)
            p = pick_pred(vi, pi, bias, user)
            if p is None:
                return
            self.last = ['run', vi, p] + (['cli'] if mode == 'cli' else []) + fl(user)
            H.do(self.last)

        @precondition(lambda self: self.last is not None and self.alive())
        @rule()
        def repeat(self):
            if not self.alive() or self.last is None:
                return
            H.do(list(self.last))

        @precondition(lambda self: self.last is not None and self.alive())
        @rule(vi=idx)
        def same_predicate_other_variant(self, vi):
            if not self.alive() or self.last is None or len(H.s.variants) < 2:
                return
            others = [i for i in range(len(H.s.variants)) if i != self.last[1]]
            v2 = others[vi % len(others)]
            ps = self.last[2] if isinstance(self.last[2], list) else [self.last[2]]
            v = H.s.variants[v2]
            user = split_flags(self.last)[1]
            ps = [p for p in ps if p in v.preds and v.at(user).known(p) is None]
            if not ps:
                return
            self.last = (['run', v2, ps[0]] if self.last[0] != 'run_many' or len(ps) < 2
                         else ['run_many', v2, ps]) + fl(user)
            H.do(self.last)

        @rule(vi=idx, pi=idx, gi=idx, how=st.sampled_from(['double', 'empty']), fi=idx)
        def probe(self, vi, pi, gi, how, fi):
            if not self.alive():
                return
            vi = pick_variant(vi)
            v = H.s.variants[vi]
            user = pick_flags(fi)
            cands = [p for p in v.at(user).runnable() if v.gdeps(p)]
            if not cands:
                return
            p = cands[pi % len(cands)]
            gs = v.gdeps(p)
            H.do(['probe', vi, p, gs[gi % len(gs)], how] + fl(user))

        @rule(vi=idx, picks=st.lists(idx, min_size=2, max_size=3), first=idx, fi=idx)
        def run_many(self, vi, picks, first, fi):
            if not self.alive():
                return
            vi = pick_variant(vi)
            v = H.s.variants[vi]
            user = pick_flags(fi)
            cands = v.at(user).runnable()
            if len(cands) < 2:
                return
            ps = []
            # first pick: often a grounded predicate that is also somebody's dependency
            gs = [p for p in cands if p in v.ground]
            if gs and first % 2:
                ps.append(gs[first // 2 % len(gs)])
            for i in picks:
                p = cands[i % len(cands)]
                if p not in ps:
                    ps.append(p)
            if len(ps) < 2:
                return
            self.last = ['run_many', vi, ps[:3]] + fl(user)
            H.do(self.last)

        @precondition(lambda self: self.alive() and bool(H.s.steps_done)
                      and H.s.steps_done[-1] != ['reopen'])
        @rule()
        def reopen(self):
            if not self.alive() or not H.s.steps_done:
                return
            H.do(['reopen'])

        def teardown(self):
            H.end()

    try:
        core.deep_call(lambda: run_state_machine_as_test(
            hypothesis.seed(ctx.hyp_seed)(Machine),
            settings=settings(max_examples=ctx.budget, stateful_step_count=prm['steps'],
                              database=None, deadline=None, phases=[Phase.generate],
                              derandomize=False, report_multiple_bugs=False,
                              suppress_health_check=list(HealthCheck))))
    finally:
        H.end()
