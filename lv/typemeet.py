"""Independent model of the type terms of type_inference/research/reference_algebra.py.

Nothing here imports or copies the code under test.  Written from the statement of
property C16:

  * a type term is  Any | Singular | Sequential | Num | Str | Bool | Time |
    [t] | {f: t, ...} (closed record) | {f: t, ..., ...} (open record);
  * a term denotes a set of ground instances: Any = everything, Singular = every
    non-list (ground scalars and records), Sequential = Str and every list, an open
    record = every record that has at least these fields, a closed record = exactly
    these fields;  the meet is the term denoting the intersection, BOT if the
    intersection is empty ("different ground types, list vs scalar, a closed record
    missing an addressed field").

Two formulations are provided and cross-checked against each other by the check
(plus `Constraints`, the Graph extended to histories of constraint operations:
field addressing, list element, closing a record -- see its docstring):

  meet(a, b)      structural recursion over two tree terms;
  Graph           the same case analysis over a pool of nodes with identity
                  (union-find), for terms that share sub-term objects: a shared
                  node is one unknown, so it must receive one type.

Tree term encoding (JSON friendly, tuples/lists interchangeable after `T`):
  ('atom', name) | ('list', t) | ('open'|'closed', ((field, t), ...)) sorted by fkey.
Pool encoding (a "case"):  nodes = [[kind, payload, raw], ...] where children are
  indices of EARLIER nodes; kind 'ref' is a reference whose target is another
  reference (a chain link); raw=1 asks the builder to embed the node as a bare
  concrete value (no TypeReference) inside its parent, as types_of_builtins does.
"""
import itertools

ATOMS = ('Any', 'Singular', 'Sequential', 'Num', 'Str', 'Bool', 'Time')
GROUND = ('Num', 'Str', 'Bool', 'Time')
BOT = 'BOT'


class Cyclic(Exception):
    pass


def fkey(f):
    return (0, f, '') if isinstance(f, int) else (1, 0, f)


def T(t):
    """Canonical tuple form of a tree term (from JSON lists or tuples)."""
    if t == BOT:
        return BOT
    k = t[0]
    if k == 'atom':
        return ('atom', t[1])
    if k == 'list':
        return ('list', T(t[1]))
    return (k, tuple(sorted(((f, T(v)) for f, v in t[1]), key=lambda fv: fkey(fv[0]))))


def show(t):
    if t == BOT:
        return 'BOT'
    k = t[0]
    if k == 'atom':
        return t[1]
    if k == 'list':
        return '[%s]' % show(t[1])
    inner = ', '.join('%s: %s' % (f, show(v)) for f, v in t[1])
    if k == 'open':
        inner = inner + ', ...' if inner else '...'
    return '{%s}' % inner


def depth(t):
    k = t[0]
    if k == 'atom':
        return 0
    if k == 'list':
        return 1 + depth(t[1])
    return 1 + max([depth(v) for _, v in t[1]] or [0])


def size(t):
    k = t[0]
    if k == 'atom':
        return 1
    if k == 'list':
        return 1 + size(t[1])
    return 1 + sum(size(v) for _, v in t[1])


def is_composite(t):
    return t != BOT and t[0] != 'atom'


# ------------------------------------------------------------------ tree meet

def meet(a, b, why=None, d=0):
    """Greatest common refinement of two tree terms, BOT if none.  `why` (a list)
    receives (reason, depth) of the first clash found."""
    def bot(reason):
        if why is not None and not why:
            why.append((reason, d))
        return BOT
    if a == BOT or b == BOT:
        return BOT
    ka, kb = a[0], b[0]
    if ka == 'atom' and a[1] == 'Any':
        return b
    if kb == 'atom' and b[1] == 'Any':
        return a
    if ka == 'atom' and kb == 'atom':
        x, y = a[1], b[1]
        if x == y:
            return a
        s = {x, y}
        if s == {'Singular', 'Sequential'}:
            return ('atom', 'Str')          # the only scalar that is a sequence
        if 'Singular' in s:
            (o,) = s - {'Singular'}
            return ('atom', o)              # every ground atom is a scalar
        if 'Sequential' in s:
            (o,) = s - {'Sequential'}
            return ('atom', o) if o == 'Str' else bot('sequential/ground')
        return bot('ground/ground')
    if ka == 'atom':
        a, b, ka, kb = b, a, kb, ka
    if kb == 'atom':                        # a composite, b atom (not Any)
        y = b[1]
        if ka == 'list':
            if y == 'Sequential':
                return a
            return bot('list/singular' if y == 'Singular' else 'list/ground')
        if y == 'Singular':
            return a
        return bot('record/sequential' if y == 'Sequential' else 'record/ground')
    if ka == 'list' or kb == 'list':
        if ka != kb:
            return bot('list/record')
        m = meet(a[1], b[1], why, d + 1)
        return BOT if m == BOT else ('list', m)
    fa, fb = dict(a[1]), dict(b[1])
    if ka == 'closed' and kb == 'closed':
        if set(fa) != set(fb):
            return bot('closed/closed_fields_differ')
        kind = 'closed'
    elif ka == 'open' and kb == 'open':
        kind = 'open'
    else:
        o, c = (fa, fb) if ka == 'open' else (fb, fa)
        if not set(o) <= set(c):
            return bot('closed_missing_addressed_field')
        kind = 'closed'
    res = {}
    for f in sorted(set(fa) | set(fb), key=fkey):
        if f in fa and f in fb:
            m = meet(fa[f], fb[f], why, d + 1)
            if m == BOT:
                return BOT
            res[f] = m
        else:
            res[f] = fa[f] if f in fa else fb[f]
    return (kind, tuple(sorted(res.items(), key=lambda fv: fkey(fv[0]))))


def leq(x, y):
    """x refines y: every ground type / record field known in y is still in x."""
    if x == BOT:
        return True
    if y == BOT:
        return False
    ky = y[0]
    kx = x[0]
    if ky == 'atom':
        n = y[1]
        if n == 'Any':
            return True
        if n == 'Singular':
            return kx in ('open', 'closed') or (kx == 'atom' and x[1] in
                                                ('Singular',) + GROUND)
        if n == 'Sequential':
            return kx == 'list' or (kx == 'atom' and x[1] in ('Sequential', 'Str'))
        return kx == 'atom' and x[1] == n
    if ky == 'list':
        return kx == 'list' and leq(x[1], y[1])
    if kx not in ('open', 'closed'):
        return False
    fx, fy = dict(x[1]), dict(y[1])
    if ky == 'closed':
        if kx != 'closed' or set(fx) != set(fy):
            return False
    elif not set(fy) <= set(fx):
        return False
    return all(leq(fx[f], fy[f]) for f in fy)


# ------------------------------------------------------------------ pools

def tree_to_nodes(t, nodes):
    """Append tree term t to the pool (no sharing); returns its index."""
    k = t[0]
    if k == 'atom':
        nodes.append(['atom', t[1], 0])
    elif k == 'list':
        c = tree_to_nodes(t[1], nodes)
        nodes.append(['list', c, 0])
    else:
        fs = [[f, tree_to_nodes(v, nodes)] for f, v in t[1]]
        nodes.append([k, fs, 0])
    return len(nodes) - 1


def children(node):
    k, p = node[0], node[1]
    if k == 'atom':
        return []
    if k in ('list', 'ref'):
        return [p]
    return [c for _, c in p]


def uses(nodes, roots):
    u = [0] * len(nodes)
    for r in roots:
        u[r] += 1
    for n in nodes:
        for c in children(n):
            u[c] += 1
    return u


def reachable(nodes, roots):
    seen = set()
    st = list(roots)
    while st:
        i = st.pop()
        if i in seen:
            continue
        seen.add(i)
        st.extend(children(nodes[i]))
    return seen


def has_sharing(nodes, roots, composite=False):
    """Some node object (composite=True: some list/record object) is reachable along
    two different paths / from two roots."""
    live = reachable(nodes, roots)
    u = [0] * len(nodes)
    for r in set(roots):
        u[r] += 1
    for i in live:
        for c in children(nodes[i]):
            u[c] += 1
    def comp(i):
        while nodes[i][0] == 'ref':
            i = nodes[i][1]
        return nodes[i][0] != 'atom'
    return any(u[i] > 1 and (not composite or comp(i)) for i in live)


class Graph:
    """Union-find unification over a pool; the oracle for terms with sharing."""

    def __init__(self, nodes):
        n = len(nodes)
        self.parent = list(range(n))
        self.shape = [None] * n
        self.clash = None
        for i, nd in enumerate(nodes):
            k, p = nd[0], nd[1]
            if k == 'ref':
                self.parent[i] = p
            elif k == 'atom':
                self.shape[i] = ('atom', p)
            elif k == 'list':
                self.shape[i] = ('list', p)
            else:
                self.shape[i] = (k, {f: c for f, c in p})

    def find(self, i):
        while self.parent[i] != i:
            self.parent[i] = self.parent[self.parent[i]]
            i = self.parent[i]
        return i

    def _bot(self, reason):
        if self.clash is None:
            self.clash = reason

    def unify(self, i, j):
        i, j = self.find(i), self.find(j)
        if i == j:
            return
        si, sj = self.shape[i], self.shape[j]
        # make i the atom if exactly one is an atom; Any first
        if sj[0] == 'atom' and (si[0] != 'atom' or sj[1] == 'Any'):
            i, j, si, sj = j, i, sj, si
        if si[0] == 'atom':
            x = si[1]
            if x == 'Any':
                self.parent[i] = j
                return
            if sj[0] == 'atom':
                y = sj[1]
                if x == y:
                    r = x
                elif {x, y} == {'Singular', 'Sequential'}:
                    r = 'Str'
                elif x == 'Singular':
                    r = y
                elif y == 'Singular':
                    r = x
                elif {x, y} == {'Sequential', 'Str'}:
                    r = 'Str'
                else:
                    return self._bot('atom/atom')
                self.parent[i] = j
                self.shape[j] = ('atom', r)
                return
            if sj[0] == 'list':
                if x != 'Sequential':
                    return self._bot('list/scalar')
            elif x != 'Singular':
                return self._bot('record/atom')
            self.parent[i] = j
            return
        if si[0] == 'list' or sj[0] == 'list':
            if si[0] != sj[0]:
                return self._bot('list/record')
            self.parent[i] = j
            self.unify(si[1], sj[1])
            return
        fi, fj = si[1], sj[1]
        if si[0] == 'closed' and sj[0] == 'closed':
            if set(fi) != set(fj):
                return self._bot('closed/closed')
            kind = 'closed'
        elif si[0] == 'open' and sj[0] == 'open':
            kind = 'open'
        else:
            o, c = (fi, fj) if si[0] == 'open' else (fj, fi)
            if not set(o) <= set(c):
                return self._bot('open/closed')
            kind = 'closed'
        merged = dict(fj)
        common = []
        for f, c in fi.items():
            if f in merged:
                common.append((c, merged[f]))
            else:
                merged[f] = c
        self.parent[i] = j
        self.shape[j] = (kind, merged)
        for c1, c2 in common:
            self.unify(c1, c2)

    def expand(self, i, path=()):
        i = self.find(i)
        if i in path:
            raise Cyclic()
        s = self.shape[i]
        if s[0] == 'atom':
            return s
        path = path + (i,)
        if s[0] == 'list':
            return ('list', self.expand(s[1], path))
        return (s[0], tuple(sorted(((f, self.expand(c, path)) for f, c in s[1].items()),
                                   key=lambda fv: fkey(fv[0]))))


# ------------------------------------------------------------------ enumeration

def enum_terms(atoms, fields, max_depth, max_nodes, max_width=3):
    """All tree terms over the alphabet with nesting depth <= max_depth and at most
    max_nodes nodes (atoms, lists and records each count 1), in a fixed order."""
    fields = sorted(fields, key=fkey)
    memo = {}

    def gen(d, n):
        # terms of depth <= d with exactly n nodes
        key = (d, n)
        if key in memo:
            return memo[key]
        out = []
        if n == 1:
            out.extend(('atom', a) for a in atoms)
        if d >= 1 and n >= 1:
            if n >= 2:
                out.extend(('list', t) for t in gen(d - 1, n - 1))
            for w in range(0, min(max_width, len(fields), n - 1) + 1):
                for fs in itertools.combinations(fields, w):
                    for split in compositions(n - 1, w):
                        pools = [gen(d - 1, s) for s in split]
                        for vs in itertools.product(*pools):
                            for kind in ('open', 'closed'):
                                out.append((kind, tuple(zip(fs, vs))))
        memo[key] = out
        return out

    def compositions(total, parts):
        if parts == 0:
            if total == 0:
                yield ()
            return
        for first in range(1, total - parts + 2):
            for rest in compositions(total - first, parts - 1):
                yield (first,) + rest

    res = []
    for n in range(1, max_nodes + 1):
        res.extend(gen(max_depth, n))
    return res


# ------------------------------------------------------------------ constraint histories

class NotRecord(Exception):
    pass


class Constraints(Graph):
    """Model of a HISTORY of the constraint operations of the type inference over a pool
    of references (property C16, "sets of constraints"):

      unify(i, j)        the two references denote the same type;
      field(i, f, j)     `i.f = j`: i is a record that has field f of type j -- an open
                         record (or an unknown) gains the field, a closed record must
                         already have it ("a closed record missing an addressed field");
      elem(l, e)         `e in l`: e is a scalar (Singular) and l is a list of e;
      close(i)           the record i denotes has exactly the fields known now; this is
                         a statement about the TYPE, i.e. about the whole class of
                         references unified with i so far, whichever of them it is
                         stated through.

    The state is a union-find over unknowns (one per pool node / auxiliary term) with one
    shape per class; `clash` is set as soon as the constraints have no common instance.
    unify/field/elem are monotone constraints (their order is immaterial); close reads the
    current field set, so it is not moved across other operations by the check."""

    def clone(self):
        c = Constraints.__new__(Constraints)
        c.parent = list(self.parent)
        c.shape = list(self.shape)
        c.clash = self.clash
        return c

    def new(self, shape):
        self.parent.append(len(self.parent))
        self.shape.append(shape)
        return len(self.parent) - 1

    def kind(self, i):
        s = self.shape[self.find(i)]
        return s[1] if s[0] == 'atom' else s[0]

    def fields(self, i):
        s = self.shape[self.find(i)]
        return sorted(s[1], key=fkey) if s[0] in ('open', 'closed') else []

    def same(self, i, j):
        return self.find(i) == self.find(j)

    def field(self, i, f, j):
        self.unify(i, self.new(('open', {f: j})))

    def elem(self, l, e):
        self.unify(e, self.new(('atom', 'Singular')))
        self.unify(l, self.new(('list', e)))

    def close(self, i):
        r = self.find(i)
        s = self.shape[r]
        if s[0] not in ('open', 'closed'):
            raise NotRecord(s[0])
        self.shape[r] = ('closed', dict(s[1]))

    def apply(self, op, refs):
        """op = ['U', i, j] | ['F', i, field, j] | ['E', list, element] | ['C', i]
        over positions in `refs` (pool node indices)."""
        k = op[0]
        if k == 'U':
            self.unify(refs[op[1]], refs[op[2]])
        elif k == 'F':
            self.field(refs[op[1]], op[2], refs[op[3]])
        elif k == 'E':
            self.elem(refs[op[1]], refs[op[2]])
        elif k == 'C':
            self.close(refs[op[1]])
        else:
            raise ValueError('unknown op %r' % (op,))

    def succ(self, c):
        s = self.shape[c]
        if s[0] == 'list':
            return [self.find(s[1])]
        if s[0] in ('open', 'closed'):
            return [self.find(x) for _, x in sorted(s[1].items(),
                                                    key=lambda fv: fkey(fv[0]))]
        return []

    def acyclic(self, starts):
        state = {}

        def visit(c):
            if state.get(c) == 1:
                return False
            if state.get(c) == 2:
                return True
            state[c] = 1
            for x in self.succ(c):
                if not visit(x):
                    return False
            state[c] = 2
            return True
        return all(visit(self.find(s)) for s in starts)

    def path_counts(self, entry):
        """entry: list of node indices, one per way the operation enters the structure
        (with multiplicity).  -> {class: number of incoming uses within the reachable
        part}; a class with a count > 1 is visited along two different paths."""
        u = {}
        seen = set()
        st = []
        for e in entry:
            c = self.find(e)
            u[c] = u.get(c, 0) + 1
            st.append(c)
        while st:
            c = st.pop()
            if c in seen:
                continue
            seen.add(c)
            for x in self.succ(c):
                u[x] = u.get(x, 0) + 1
                st.append(x)
        return u

    def shared_entry(self, entry, composite=False):
        u = self.path_counts(entry)
        return any(n > 1 and (not composite or self.shape[c][0] != 'atom')
                   for c, n in u.items())


def op_entries(op, refs):
    """The references through which one operation enters the pool (for sharing tests):
    a reference reachable from two of them, or twice from one, is visited twice."""
    k = op[0]
    if k == 'U':
        return [refs[op[1]], refs[op[2]]]
    if k == 'F':
        return [refs[op[1]], refs[op[3]]]
    if k == 'E':
        return [refs[op[1]], refs[op[2]]]
    return [refs[op[1]]]


def op_tree_result(op, before):
    """Tree formulation of one operation for the cross-check: `before` maps the op's
    reference positions to tree terms (no sharing between them); -> {position: tree or
    BOT} for the positions the operation constrains."""
    k = op[0]
    if k == 'U':
        m = meet(before[op[1]], before[op[2]])
        return {op[1]: m, op[2]: m}
    if k == 'F':
        m = meet(before[op[1]], ('open', ((op[2], before[op[3]]),)))
        if m == BOT:
            return {op[1]: BOT, op[3]: BOT}
        return {op[1]: m, op[3]: dict(m[1])[op[2]]}
    if k == 'E':
        e = meet(before[op[2]], ('atom', 'Singular'))
        if e == BOT:
            return {op[1]: BOT, op[2]: BOT}
        m = meet(before[op[1]], ('list', e))
        if m == BOT:
            return {op[1]: BOT, op[2]: BOT}
        return {op[1]: m, op[2]: m[1]}
    if k == 'C':
        t = before[op[1]]
        return {op[1]: ('closed', t[1])}
    raise ValueError(op)
