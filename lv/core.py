"""Common runner machinery: shards, collectors, evidence, replays, known findings.

Entry point is lv.check (CLI).  A property module (lv/props/cNN.py) provides

  ID, RULE (str), BUDGET = {'quick': n, 'thorough': m}   (total generated cases)
  shard(ctx, col)          run this shard's share of cases, record into Collector
  check_case(case) -> list of (bucket, detail)   re-execute one stored case
  optional: minimise(case, bucket) -> case ; fixed(ctx, col) deterministic cases

Everything random is a Hypothesis draw; a shard is a pure function of
(VERIF_SEED, shard index, code under test).
"""
import collections
import hashlib
import json
import os
import subprocess
import sys
import tempfile
import time
import shutil

VERIF = os.path.dirname(os.path.dirname(os.path.abspath(__file__)))
CASE_SALT = [0]      # set per shard by lv.worker (see props/common.strategy)
NSHARDS = int(os.environ.get('VERIF_SHARDS', '16'))


def repo_path():
    return os.path.abspath(os.environ.get('VERIF_REPO', '/repo'))


def setup_repo_imports():
    rp = repo_path()
    if rp not in sys.path:
        sys.path.insert(0, rp)
    return rp


def h(obj):
    """Short stable hash of a JSON-able object / string."""
    if not isinstance(obj, str):
        obj = json.dumps(obj, sort_keys=True, default=str)
    return hashlib.sha1(obj.encode('utf-8', 'surrogatepass')).hexdigest()[:16]


class Ctx:
    def __init__(self, pid, tier, seed, k=0, n=1, budget=None):
        self.pid = pid
        self.tier = tier
        self.seed = seed
        self.k = k              # shard index
        self.n = n              # number of shards
        self.budget = budget    # cases for THIS shard

    @property
    def hyp_seed(self):
        return self.seed * 1000 + self.k


class Collector:
    MAX_FAIL_PER_BUCKET = 3
    MAX_SAMPLES = 4

    def __init__(self):
        self.evaluations = 0
        self.nontrivial = set()
        self.labels = collections.Counter()
        self.failures = []
        self._fail_count = collections.Counter()
        self.samples = []
        self.inconclusive = collections.Counter()
        self.excluded = collections.Counter()
        self.notes = []

    def case(self, key, nontrivial, labels=(), sample=None):
        self.evaluations += 1
        if nontrivial:
            hk = h(key)
            if hk not in self.nontrivial and sample is not None and \
                    len(self.samples) < self.MAX_SAMPLES:
                self.samples.append(sample)
            self.nontrivial.add(hk)
        for l in labels:
            self.labels[l] += 1

    def label(self, *ls):
        for l in ls:
            self.labels[l] += 1

    def fail(self, bucket, case, detail=''):
        self._fail_count[bucket] += 1
        if self._fail_count[bucket] <= self.MAX_FAIL_PER_BUCKET:
            self.failures.append({'bucket': bucket, 'case': case,
                                  'detail': str(detail)[:4000]})

    def inconc(self, why):
        self.inconclusive[why] += 1

    def exclude(self, why):
        self.excluded[why] += 1

    def dump(self):
        return {'evaluations': self.evaluations,
                'nontrivial': sorted(self.nontrivial),
                'labels': dict(self.labels),
                'failures': self.failures,
                'fail_count': dict(self._fail_count),
                'samples': self.samples,
                'inconclusive': dict(self.inconclusive),
                'excluded': dict(self.excluded),
                'notes': self.notes}

    def merge(self, d):
        self.evaluations += d['evaluations']
        self.nontrivial |= set(d['nontrivial'])
        self.labels.update(d['labels'])
        for f in d['failures']:
            self.failures.append(f)
        self._fail_count.update(d['fail_count'])
        for s in d['samples']:
            if len(self.samples) < self.MAX_SAMPLES:
                self.samples.append(s)
        self.inconclusive.update(d['inconclusive'])
        self.excluded.update(d['excluded'])
        self.notes.extend(d['notes'])


def hyp_run(fn, strategy, n, seed):
    """Run fn(value) on n Hypothesis-generated values; fn records, never raises
    for property failures (collect-then-minimise)."""
    import hypothesis
    from hypothesis import settings, given, HealthCheck, Phase
    if n <= 0:
        return

    @hypothesis.seed(seed)
    @settings(max_examples=n, database=None, deadline=None,
              phases=[Phase.generate], derandomize=False,
              report_multiple_bugs=False,
              suppress_health_check=list(HealthCheck))
    @given(strategy)
    def t(x):
        deep_call(fn, x)
    t()


def _make_big_frame(nlocals=66000):
    """A trampoline whose frame has `nlocals` (never assigned) local variables."""
    names = ', '.join('v%d' % i for i in range(nlocals))
    src = 'def big_frame(fn, args):\n    if 0:\n        %s = None\n    return fn(*args)\n' % \
        ' = '.join('v%d' % i for i in range(nlocals))
    ns = {}
    exec(compile(src, '<big_frame>', 'exec'), ns)
    return ns['big_frame']


_BIG = []
_DEPTH = [0]


def deep_call(fn, *args):
    """Call fn(*args) from inside a frame of ~1 MB.  Only a matter of speed: CPython
    3.11+ keeps interpreter frames in 16 KB "data stack" chunks which are mmap-ed when a
    call crosses the end of the current chunk and munmap-ed as soon as that call returns.
    The compiler's recursive tree walks cross such a boundary tens of thousands of times
    per program (measured: 50 000 munmap calls for 4 generated programs, more system
    than user time, munmap being slow in this sandbox).  A frame that is itself larger
    than a chunk makes CPython allocate one big chunk (next power of two), and every
    nested frame then lives in its free tail (~0.5 MB): no further mapping until a few
    thousand frames deep.  Nothing about the code under test changes.  VERIF_NO_BIGFRAME=1 calls
    directly."""
    if os.environ.get('VERIF_NO_BIGFRAME') or _DEPTH[0]:
        return fn(*args)
    if not _BIG:
        _BIG.append(_make_big_frame())
    _DEPTH[0] += 1
    try:
        return _BIG[0](fn, args)
    finally:
        _DEPTH[0] -= 1


in_fresh_thread = deep_call      # old name (the first remedy tried was a new thread)


def ddmin(items, still_fails, max_tests=200):
    """Greedy one-at-a-time + chunk removal; returns a sub-list that still fails."""
    items = list(items)
    tests = [0]

    def test(sub):
        tests[0] += 1
        if tests[0] > max_tests:
            return False
        try:
            return bool(still_fails(sub))
        except Exception:
            return False
    n = 2
    while len(items) >= 2 and tests[0] <= max_tests:
        chunk = max(1, len(items) // n)
        reduced = False
        for i in range(0, len(items), chunk):
            sub = items[:i] + items[i + chunk:]
            if sub and test(sub):
                items = sub
                n = max(n - 1, 2)
                reduced = True
                break
        if not reduced:
            if chunk == 1:
                break
            n = min(len(items), n * 2)
    return items


# ---------------------------------------------------------------- known findings

def load_known(pid):
    p = os.path.join(VERIF, 'known_findings.json')
    if not os.path.exists(p):
        return []
    with open(p) as f:
        data = json.load(f)
    return [e for e in data.get('findings', []) if e.get('property') == pid]


# ---------------------------------------------------------------- evidence

def write_evidence(pid, tier, seed, col, rule, wall, violations, extra=None,
                   assumptions=None, exhaustive=None):
    cov = {
        'evaluations': int(col.evaluations),
        'distinct_nontrivial': len(col.nontrivial),
        'rule': rule,
        'samples': col.samples[:Collector.MAX_SAMPLES] or ['<no non-trivial case>'],
        'labels': dict(sorted(col.labels.items())),
        'inconclusive': dict(col.inconclusive),
        'excluded_by_construction': dict(col.excluded),
    }
    if exhaustive is not None:
        cov['exhaustive'] = exhaustive
    if col.notes:
        cov['notes'] = col.notes[:20]
    if extra:
        cov.update(extra)
    ev = {'property_id': pid, 'tier': tier, 'seed': int(seed),
          'level': 'exploration', 'coverage': cov,
          'assumptions': assumptions or [], 'wall_s': round(wall, 2),
          'violations': int(violations)}
    # evidence/ holds runs against /repo itself only; sensitivity runs against a scratch
    # tree (VERIF_REPO) and reduced-budget development runs (VERIF_EVIDENCE_DIR) go elsewhere
    sub = os.environ.get('VERIF_EVIDENCE_DIR') or (
        'evidence' if repo_path() == '/repo' else os.path.join('.build', 'mut_evidence'))
    d = os.path.join(VERIF, sub)
    os.makedirs(d, exist_ok=True)
    tmp = os.path.join(d, pid + '.json.tmp')
    with open(tmp, 'w') as f:
        json.dump(ev, f, indent=1, sort_keys=True, default=str, ensure_ascii=True)
    os.replace(tmp, os.path.join(d, pid + '.json'))
    return ev


def write_replay(pid, failure):
    base = 'replays' if repo_path() == '/repo' else os.path.join('.build', 'mut_replays')
    d = os.path.join(VERIF, base, pid)
    os.makedirs(d, exist_ok=True)
    name = h({'b': failure['bucket'], 'c': failure['case']}) + '.json'
    p = os.path.join(d, name)
    with open(p, 'w') as f:
        json.dump({'property': pid, 'bucket': failure['bucket'],
                   'detail': failure.get('detail', ''), 'case': failure['case']},
                  f, indent=1, default=str)
    return p


# ---------------------------------------------------------------- shards

def run_shards(pid, tier, seed, total_budget, nshards=None, wall_limit=None):
    """Launch worker subprocesses; returns merged Collector + list of shard notes."""
    nshards = nshards or NSHARDS
    nshards = max(1, min(nshards, total_budget)) if total_budget else 1
    per = [total_budget // nshards + (1 if i < total_budget % nshards else 0)
           for i in range(nshards)]
    tmpd = tempfile.mkdtemp(prefix='lv_%s_' % pid)
    procs = []
    env = dict(os.environ)
    env.setdefault('PYTHONHASHSEED', '0')
    env['PYTHONPATH'] = VERIF + os.pathsep + env.get('PYTHONPATH', '')
    try:
        for k in range(nshards):
            out = os.path.join(tmpd, 'shard%d.json' % k)
            err = open(os.path.join(tmpd, 'shard%d.err' % k), 'w')
            p = subprocess.Popen(
                [sys.executable, '-m', 'lv.worker', pid, tier, str(seed), str(k),
                 str(nshards), str(per[k]), out],
                cwd=VERIF, env=env, stdout=err, stderr=err)
            procs.append((k, p, out, err))
        col = Collector()
        t0 = time.time()
        harness_errors = []
        for k, p, out, err in procs:
            remaining = None
            if wall_limit:
                remaining = max(1, wall_limit - (time.time() - t0))
            try:
                p.wait(timeout=remaining)
            except subprocess.TimeoutExpired:
                p.kill()
                p.wait()
                col.inconc('shard_wall_limit')
                err.close()
                continue
            err.close()
            if p.returncode != 0 or not os.path.exists(out):
                with open(err.name) as f:
                    harness_errors.append('shard %d rc=%s\n%s' % (
                        k, p.returncode, f.read()[-3000:]))
                continue
            with open(out) as f:
                col.merge(json.load(f))
        return col, harness_errors
    finally:
        for k, p, out, err in procs:
            if p.poll() is None:
                p.kill()
        shutil.rmtree(tmpd, ignore_errors=True)
