"""Import-graph generator, module printer and the hand flattener for C12.

A *tree* is a list of modules; module 0 is `main`, module j > 0 is a file
`<root>/<path with / for .>.l`.  Module i imports only from modules with a larger index
(the negative variants break that on purpose).  All names inside a module are LOCAL:
its own predicates (`Data`, `Helper`, `Out` ... the same names in every module, with
different rows) and the local names of its imports (`import path.Pred` -> `Pred`,
`import path.Pred as Alias` -> `Alias`).

    mod = {'path': 'x.a.util' | 'main', 'root': int,
           'imports': [{'file': path, 'pred': P, 'as': Alias | None}],
           'rules': [model rule], 'inj': {name: InjDef},
           'functors': [{'name': N, 'of': F, 'args': [[K, V]]}],     N := F(K: V)
           'order': 'std' | 'imports_last' | 'interleaved', 'comment': str,
           'sig': {own concrete name: {'fields': [[f, t]..], 'value': t|None}},
           'exports': [names meant for importers]}

`flatten` is the oracle side of the property ("the single-file program in which every
file's predicates were given unique names"): it is written on OUR AST, knows nothing
about Logica's prefixes, names module j's predicate P `M<j>P` and resolves every import
to the definition it denotes.  `expand_functors` removes `N := F(K: V)` by cloning (by
hand: the rules of F and of everything between F and K, with K read as V), so that the
reference evaluator, which has no functors, can evaluate the flattened program.
"""
import collections
import copy

from lv import gen, model, ref, xform
from lv.model import mk_rule

PRIVATE = ('Data', 'Base', 'Helper', 'Alt', 'Made')
EXPORTS = ('Out', 'Res', 'Pub', 'View')
TARGETS = ('Main', 'Other')
ALIASES = ('Alpha', 'Beta', 'Gamma', 'Delta', 'Kappa', 'Sigma', 'Omega', 'Theta',
           'Lambda', 'Zeta')
PLAIN_BASES = ('alpha', 'beta', 'gamma', 'delta', 'core', 'data_set', 'lib_x', 'm1',
               'tools', 'shapes')
PLAIN_DIRS = ((), (), ('lib',), ('pkg', 'sub'), ('x', 'a'), ('my_lib',), ('lib', 'v2'))
SHARED_BASES = ('util', 'common', 'helpers_x')

OPTS = dict(p_colnames=0.0, max_rows=4, p_composite_col=0.1, p_neg=0.12, p_agg=0.12,
            p_distinct=0.25, p_or=0.2, p_fcall=0.08, p_two_rules=0.3,
            agg_ops=('Sum', 'Min', 'Max'), pred_agg_ops_n=('Sum', 'Min', 'Max', '+'),
            pred_agg_ops_s=('Min', 'Max'), nest_depth=1)


MAX_PRED_ROWS = 40         # a generated predicate with more rows is drawn again
GEN_BUDGET = 40000         # reference work allowed for one generated predicate
REF_BUDGET = 2000000       # ... and for the final evaluation of a whole tree


def tag(i):
    return '' if i == 0 else 'M%d' % i


# ------------------------------------------------------------------ structure helpers

def own_names(m):
    out = []
    for r in m['rules']:
        if r['pred'] not in out:
            out.append(r['pred'])
    for n in m.get('inj', {}):
        if n not in out:
            out.append(n)
    for f in m.get('functors', []):
        if f['name'] not in out:
            out.append(f['name'])
    return out


def local_of(imp):
    return imp['as'] or imp['pred']


def index_of(mods):
    return {m['path']: i for i, m in enumerate(mods) if m is not None}


def reachable(mods, top=0):
    idx = index_of(mods)
    seen, order, stack = set(), [], [top]
    while stack:
        i = stack.pop()
        if i in seen:
            continue
        seen.add(i)
        order.append(i)
        for imp in mods[i]['imports']:
            j = idx.get(imp['file'])
            if j is not None and j not in seen:
                stack.append(j)
    return sorted(order)


def n_paths(mods, top=0):
    """number of distinct import paths from `top` to every module (DAG)."""
    idx = index_of(mods)
    memo = {}

    def count(i):
        if i not in memo:
            memo[i] = collections.Counter({i: 1})
            files = []
            for imp in mods[i]['imports']:
                if imp['file'] not in files:
                    files.append(imp['file'])
            for f in files:
                memo[i].update(count(idx[f]))
        return memo[i]
    return count(top)


def depth(mods, top=0):
    idx = index_of(mods)
    memo = {}

    def d(i):
        if i not in memo:
            memo[i] = 0
            memo[i] = max([1 + d(idx[imp['file']]) for imp in mods[i]['imports']] or [0])
        return memo[i]
    return d(top)


# ------------------------------------------------------------------ renaming on our AST

def rename_rules(rules, inj, fn):
    """Every predicate reference (heads, calls, functional calls) through fn."""
    def ex(x):
        if x[0] == 'fcall':
            return ('fcall', fn(x[1]), x[2])
        return x

    def lf(l, nested, in_or):
        l = xform.map_lit_exprs(l, ex)
        if l[0] == 'call':
            l = ('call', fn(l[1])) + tuple(l[2:])
        return [l]
    out = []
    for r in rules:
        r2 = dict(r)
        r2['pred'] = fn(r['pred'])
        r2['body'] = xform.map_body(r['body'], lf)
        head = []
        for f, hx in r['head']:
            if hx[0] == 'AGG':
                head.append((f, ('AGG', hx[1], xform.map_expr(hx[2], ex))))
            else:
                head.append((f, xform.map_expr(hx, ex)))
        r2['head'] = tuple(head)
        v = r.get('value')
        if v is not None:
            r2['value'] = ('AGG', v[1], xform.map_expr(v[2], ex)) if v[0] == 'AGG' \
                else xform.map_expr(v, ex)
        out.append(r2)
    inj2 = collections.OrderedDict()
    for name, d in (inj or {}).items():
        if d[0] == 'fun':
            inj2[fn(name)] = ('fun', d[1], xform.map_expr(d[2], ex))
        else:
            inj2[fn(name)] = ('rel', d[1], xform.map_body(d[2], lf))
    return out, inj2


def local_map(mods, i):
    """local name -> flat name for module i."""
    idx = index_of(mods)
    mp = {}
    for n in own_names(mods[i]):
        mp[n] = tag(i) + n
    for imp in mods[i]['imports']:
        j = idx[imp['file']]
        mp.setdefault(local_of(imp), tag(j) + imp['pred'])
    return mp


def functor_text(f):
    return '%s := %s(%s);' % (f['name'], f['of'],
                               ', '.join('%s: %s' % (k, v) for k, v in f['args']))


def flatten(mods, top=0):
    """-> single-file program {'rules', 'inj', 'functors', 'ann'} with unique names."""
    rules, inj, functors = [], collections.OrderedDict(), []
    for i in reachable(mods, top):
        mp = local_map(mods, i)
        fn = lambda n, mp=mp: mp.get(n, n)
        r2, i2 = rename_rules(mods[i]['rules'], mods[i].get('inj', {}), fn)
        rules.extend(r2)
        inj.update(i2)
        for f in mods[i].get('functors', []):
            functors.append({'name': fn(f['name']), 'of': fn(f['of']),
                             'args': [[fn(k), fn(v)] for k, v in f['args']]})
    return {'rules': rules, 'inj': inj, 'functors': functors,
            'ann': [functor_text(f) for f in functors]}


# ------------------------------------------------------------------ functors by hand

def direct_deps(rules):
    from lv.props import common
    d = collections.defaultdict(set)
    for r in rules:
        d[r['pred']] |= common.deps_of_rule(r)
    return d


def closure(deps, start):
    seen, stack = set(), [start]
    while stack:
        p = stack.pop()
        if p in seen:
            continue
        seen.add(p)
        stack.extend(deps.get(p, ()))
    return seen


def expand_functors(prog):
    """N := F(K: V): clone F and every predicate on a dependency path from F to K, with
    K read as V.  Only un-nested functors (nothing cloned is itself made by a functor)."""
    base = list(prog['rules'])
    deps = direct_deps(base)
    made = set(f['name'] for f in prog.get('functors', []))
    for f in prog.get('functors', []):
        # conservative: a made predicate depends on whatever its functor mentions
        deps[f['name']] |= {f['of']} | set(v for k, v in f['args'])
    extra = []
    for f in prog.get('functors', []):
        keys = dict((k, v) for k, v in f['args'])
        clo = closure(deps, f['of'])
        s = set(p for p in clo if p not in keys and (closure(deps, p) & set(keys)))
        s.add(f['of'])
        if s & made:
            # F (or something between F and K) is itself made by a functor
            raise ValueError('nested functor')
        m = {p: (f['name'] if p == f['of'] else '%sOf%s' % (f['name'], p)) for p in s}
        m.update(keys)
        r2, _ = rename_rules([r for r in base if r['pred'] in s], {},
                             lambda n, m=m: m.get(n, n))
        extra.extend(r2)
    return {'rules': base + extra, 'inj': prog.get('inj', {})}


# ------------------------------------------------------------------ printing

def import_text(imp):
    s = 'import %s.%s' % (imp['file'], imp['pred'])
    if imp.get('as'):
        s += ' as ' + imp['as']
    return s + ';'


def module_text(m, is_main=False):
    imports = [import_text(i) for i in m['imports']]
    body = [model.print_inj(n, d) for n, d in m.get('inj', {}).items()]
    body += [model.print_rule(r) for r in m['rules']]
    body += [functor_text(f) for f in m.get('functors', [])]
    order = m.get('order', 'std')
    if order == 'imports_last':
        lines = body + imports
    elif order == 'interleaved':
        lines, k = [], 0
        for b in body:
            lines.append(b)
            if k < len(imports):
                lines.append(imports[k])
                k += 1
        lines += imports[k:]
    else:
        lines = imports + body
    if is_main:
        lines = ['@Engine("sqlite");'] + lines
    if m.get('comment'):
        lines.append(m['comment'])
    return '\n'.join(lines) + '\n'


def file_relpath(m):
    return '/'.join(m['path'].split('.')) + '.l'


# ------------------------------------------------------------------ JSON

def mod_to_json(m):
    return model.prog_to_json(m)


def mod_from_json(j):
    m = dict(j)
    m['rules'] = [model.rule_from_json(r) for r in j['rules']]
    m['inj'] = collections.OrderedDict((k, model.tup(v)) for k, v in j.get('inj', {}).items())
    m['imports'] = [dict(i) for i in j.get('imports', [])]
    m['functors'] = [{'name': f['name'], 'of': f['of'],
                      'args': [list(a) for a in f['args']]} for f in j.get('functors', [])]
    return m


def sig_from_json(s):
    return {'fields': tuple((f, t) for f, t in s['fields']), 'value': s.get('value')}


def sig_to_json(s):
    return {'fields': [[f, t] for f, t in s['fields']], 'value': s.get('value')}


# ------------------------------------------------------------------ module contents

class ModGen(gen.Gen):
    """gen.Gen plus: forced signatures, collector rules with chosen sources, emptiness
    test through a callback (imports are evaluated through the flattened tree)."""

    def __init__(self, rng, nonempty, **opts):
        gen.Gen.__init__(self, rng, **opts)
        self._forced_sig = None
        self._nonempty = nonempty

    def new_sig(self, allow_composite=False, named_p=None):
        if self._forced_sig is not None:
            s, self._forced_sig = self._forced_sig, None
            return s
        return gen.Gen.new_sig(self, allow_composite, named_p)

    def edb_like(self, name, sig):
        self._forced_sig = {'fields': tuple(sig['fields']), 'value': sig['value']}
        self.edb(name)

    def collector(self, name, sources, sig=None, plain=False):
        """One rule per source: name(..) :- Source(fresh vars) [, extra literal].
        plain: projections only (bounded size, nothing the reference cannot decide)."""
        rng = self.rng
        s = sig or gen.Gen.new_sig(self, allow_composite=False)
        for src in sources:
            env = {}
            self.used = set()
            self.roots = set()
            self._sib_locals = set()
            self._agg_results = []
            body = [self.call(env, name=src, fresh_only=True)]
            r = rng.random()
            if plain:
                pass
            elif r < 0.2:
                body.append(self.binding_literal(env, 1))
            elif r < 0.45:
                body.append(self.filter_literal(env, 1))
            d = 0 if plain else 2
            head = [(f, self.expr(t, env, d, allow_fcall=not plain))
                    for f, t in s['fields']]
            val = self.expr(s['value'], env, d, allow_fcall=not plain) \
                if s['value'] else None
            if rng.random() < 0.5:
                rng.shuffle(body)
            self.rules.append(mk_rule(name, head, body, value=val))
        self.sig[name] = s
        self.concrete.append(name)
        self.labels.add('collector')

    def idb_nonempty(self, name, maker=None, sources=None):
        """Draw the predicate up to 3 times until the reference finds 1..MAX_PRED_ROWS
        rows and no undecidable value; then fall back to plain projections of
        `sources` (the imports that must stay used) or of the first own predicate."""
        maker = maker or self.idb
        for attempt in range(3):
            n_rules = len(self.rules)
            snapshot = (dict(self.sig), list(self.concrete))
            maker(name)
            try:
                n = self._nonempty(name)
                if 1 <= n <= MAX_PRED_ROWS:
                    return
                why = 'regenerated_empty_predicate' if n == 0 else \
                    'regenerated_large_predicate'
            except ref.TooBig:
                why = 'regenerated_large_predicate'
            except ref.Ambiguous:
                why = 'regenerated_ref_undecidable_predicate'
            except Exception:
                return
            del self.rules[n_rules:]
            self.sig, self.concrete = snapshot
            self.excl(why)
        self.collector(name, sources or self.concrete[:1], plain=True)
        self.excl('plain_projection_fallback')


def _fresh(pool, taken, rng):
    free = [a for a in pool if a not in taken]
    return rng.choice(free) if free else 'Zz%d' % len(taken)


def gen_module(rng, mods, i, files, labels, excluded, rowcache):
    """Fill mods[i] (path/root already set); `files` = indices of the modules it imports
    (all generated already).  rowcache: reference rows of the finished modules'
    predicates by flat name (the reference evaluator's own results, memoised)."""
    is_main = i == 0
    m = mods[i]
    m.update({'imports': [], 'rules': [], 'inj': collections.OrderedDict(),
              'functors': [], 'sig': {}, 'exports': []})

    def nonempty(name):
        m['rules'], m['inj'] = g.rules, g.inj
        flat = flatten(mods, i)
        ev = ref.Evaluator(expand_functors(flat), overrides=rowcache, budget=GEN_BUDGET)
        return len(ev.rows(tag(i) + name))

    g = ModGen(rng, nonempty, **OPTS)
    n_out = rng.randint(1, 2)
    outs = list(TARGETS[:n_out]) if is_main else rng.sample(EXPORTS, n_out)
    own_plan = set(PRIVATE) | set(outs) | {'J0'}
    taken = set(own_plan)
    fplan = None            # functor over imported predicates: (F local, K local, K sig)

    # ---- imports
    for j in files:
        ex = mods[j]
        pubs = list(ex['exports'])
        privs = [n for n in ex['sig'] if n not in pubs]
        picks = [rng.choice(pubs)]
        if rng.random() < 0.45:
            rest = [n for n in (pubs + privs) if n not in picks]
            if rest:
                picks.append(rng.choice(rest))
                labels.add('two_preds_from_one_file')
        # a functor applied to an imported predicate, replacing that file's private Data
        want_f = fplan is None and rng.random() < 0.3 and 'Data' in ex['sig']
        if want_f:
            flat = flatten(mods, j)
            deps = direct_deps(flat['rules'])
            made = set(f['name'] for f in flat['functors'])
            cands = [p for p in pubs
                     if (tag(j) + 'Data') in closure(deps, tag(j) + p)
                     and not (closure(deps, tag(j) + p) & made)]
            if cands:
                fp = rng.choice(cands)
                picks = [fp, 'Data'] + [p for p in picks if p not in (fp, 'Data')][:1]
        for pred in picks:
            alias = None
            if pred in taken or rng.random() < 0.4:
                alias = _fresh(ALIASES, taken, rng)
                labels.add('alias')
                if pred in taken:
                    labels.add('alias_needed_name_clash')
            else:
                labels.add('import_without_alias')
            local = alias or pred
            taken.add(local)
            m['imports'].append({'file': ex['path'], 'pred': pred, 'as': alias})
            g.sig[local] = sig_from_json(ex['sig'][pred])
            g.concrete.append(local)
            if pred in privs:
                labels.add('import_of_private_pred')
        if want_f and cands:
            loc = {imp['pred']: local_of(imp) for imp in m['imports']
                   if imp['file'] == ex['path']}
            fplan = (loc[fp], loc['Data'], sig_from_json(ex['sig']['Data']))
    import_locals = [local_of(imp) for imp in m['imports']]

    # ---- private predicates (same names in every module, different rows)
    own_functor = rng.random() < 0.25
    if rng.random() < 0.9 or own_functor or not import_locals:
        g.edb('Data')
    if rng.random() < 0.25:
        g.edb('Base')
    if rng.random() < 0.3:
        g.make_inj('J0')
        labels.add('module_injectible')
    own_edb = [n for n in ('Data', 'Base') if n in g.sig]
    unused = list(import_locals)
    if fplan:
        # the replaced predicate may stay used by the functor statement only
        if rng.random() < 0.6:
            unused.remove(fplan[1])
            labels.add('import_used_only_in_functor')
    if own_edb and (own_functor or rng.random() < 0.55):
        if own_functor or rng.random() < 0.5:
            src = ['Data'] if 'Data' in own_edb else own_edb[:1]
            if unused and rng.random() < 0.3:
                src.append(unused.pop(rng.randrange(len(unused))))
            g.idb_nonempty('Helper', lambda n: g.collector(n, src), src)
        else:
            g.idb_nonempty('Helper')
    # ---- functors
    def expandable(f):
        m['rules'], m['inj'] = g.rules, g.inj
        m['functors'].append(f)
        try:
            expand_functors(flatten(mods, i))
            return True
        except ValueError:
            m['functors'].pop()
            excluded['nested_functor_not_generated'] = \
                excluded.get('nested_functor_not_generated', 0) + 1
            return False
    if own_functor and 'Helper' in g.sig and 'Data' in g.sig and \
            expandable({'name': 'Made', 'of': 'Helper', 'args': [['Data', 'Alt']]}):
        g.edb_like('Alt', g.sig['Data'])
        g.sig['Made'] = g.sig['Helper']
        g.concrete.append('Made')
        labels.add('functor_own')
    elif fplan and 'Alt' not in g.sig and \
            expandable({'name': 'Made', 'of': fplan[0], 'args': [[fplan[1], 'Alt']]}):
        g.edb_like('Alt', fplan[2])
        g.sig['Made'] = g.sig[fplan[0]]
        g.concrete.append('Made')
        labels.add('functor_over_imported')
        if fplan[0] in unused and rng.random() < 0.5:
            unused.remove(fplan[0])
    if fplan and not any(f['of'] == fplan[0] for f in m['functors']) and \
            fplan[1] not in unused and fplan[1] not in [
                l[1] for r in g.rules for l in r['body'] if l[0] == 'call']:
        unused.append(fplan[1])     # no functor after all: the import must be used
    # ---- exported / target predicates
    privs = [n for n in ('Data', 'Base', 'Helper', 'Made') if n in g.sig]
    for k, name in enumerate(outs):
        if k == 0:
            src = list(unused)
            extra = [p for p in privs if p != 'Made']
            if 'Made' in privs:
                src.append('Made')
            if extra and (rng.random() < 0.85 or not src):
                src.append(rng.choice(extra))
            rng.shuffle(src)
            g.idb_nonempty(name, lambda n, src=src: g.collector(n, src), src)
        elif rng.random() < 0.5:
            pool = import_locals + privs + outs[:k]
            src = rng.sample(pool, min(len(pool), rng.randint(1, 2)))
            g.idb_nonempty(name, lambda n, src=src: g.collector(n, src), src)
        else:
            g.idb_nonempty(name)
    m['rules'], m['inj'] = g.rules, g.inj
    m['exports'] = list(outs)
    m['sig'] = {n: sig_to_json(g.sig[n]) for n in own_names(m) if n in g.sig}
    m['order'] = rng.choice(['std', 'std', 'std', 'imports_last', 'interleaved'])
    ev = ref.Evaluator(expand_functors(flatten(mods, i)), overrides=rowcache,
                       budget=20 * GEN_BUDGET)
    for n in own_names(m):
        if n in g.sig:
            try:
                rows = ev.rows(tag(i) + n)
            except Exception:
                break
            rowcache[tag(i) + n] = rows
    for l in g.labels:
        labels.add('content:' + l)
    for k, v in g.excluded.items():
        excluded[k] = excluded.get(k, 0) + v


# ------------------------------------------------------------------ graphs and paths

def gen_edges(rng, n):
    """-> (shape, {i: sorted list of imported module indices}) over 0..n, i < j."""
    e = {i: set() for i in range(n + 1)}
    shapes = ['chain', 'star', 'random', 'random']
    if n >= 3:
        shapes += ['diamond', 'diamond']
    shape = rng.choice(shapes) if n > 1 else 'single'
    if shape in ('chain', 'single'):
        for i in range(n):
            e[i].add(i + 1)
    elif shape == 'star':
        for j in range(1, n + 1):
            e[0].add(j)
    elif shape == 'diamond':
        e[0] |= {1, 2}
        e[1].add(3)
        e[2].add(3)
        for j in range(4, n + 1):
            e[rng.randrange(j)].add(j)
    else:
        for j in range(1, n + 1):
            e[rng.randrange(j)].add(j)
    if shape != 'single':
        for i in range(n + 1):
            for j in range(i + 1, n + 1):
                if rng.random() < 0.22:
                    e[i].add(j)
    return shape, {i: sorted(v) for i, v in e.items()}


def gen_paths(rng, n):
    """-> (paths for modules 1..n, style) style in none | strong | strong_deep | weak."""
    r = rng.random()
    style = 'none'
    paths = []
    if n >= 2 and r < 0.2:
        style = 'strong'
        base = rng.choice(SHARED_BASES)
        k = rng.randint(2, min(3, n))
        parents = rng.sample(['a', 'b', 'c', 'd', 'sub_1'], k)
        for p in parents:
            top = rng.choice([('x',), ('x',), ('y',), ('pkg', 'x')])
            paths.append('.'.join(top + (p, base)))
    elif n >= 2 and r < 0.4:
        # >= 2 files sharing base name AND parent directory (org/eu/tax/rates,
        # org/us/tax/rates, org/asia/tax/rates): the one-directory-extended prefix is
        # taken as well, only a longer trailing sub-path tells them apart
        style = 'strong_deep'
        base = rng.choice(SHARED_BASES + ('rates',))
        parent = rng.choice(['tax', 'a', 'sub_1'])
        k = min(n, rng.choice([2, 3, 3, 3, 4]))
        tops = [('org',), ('org',), ('pkg', 'x')]
        top = rng.choice(tops)
        for g in rng.sample(['eu', 'us', 'asia', 'b', 'c2'], k):
            paths.append('.'.join(top + (g, parent, base)))
        if len(paths) < n and rng.random() < 0.4:
            # one more with the same base in another parent directory
            paths.append('.'.join(top + (rng.choice(['eu', 'us']), 'vat', base)))
    elif n >= 2 and r < 0.5:
        style = 'weak'
        base = rng.choice(SHARED_BASES)
        v = rng.randrange(4 if n >= 3 else 3)
        if v == 0:
            paths = ['a.' + base, 'b.' + base]
        elif v == 1:
            paths = [base, 'a.' + base]
        elif v == 2:
            paths = ['x.a.' + base, 'y.a.' + base]
        else:
            paths = ['x.a.' + base, 'y.a.' + base, 'z.a.' + base]
    bases = [b for b in PLAIN_BASES]
    rng.shuffle(bases)
    while len(paths) < n:
        d = rng.choice(PLAIN_DIRS)
        paths.append('.'.join(d + (bases.pop(),)))
    rng.shuffle(paths)
    return paths, style


def prefix_candidates(path):
    """The strings the documented prefix scheme may give a file: capitalised base name
    + '_', extended to the left by whole directory names, never by the first component
    (`a.b.util` -> Util_, bUtil_)."""
    parts = path.split('.')
    out, cur = [], parts[-1].capitalize() + '_'
    out.append(cur)
    for k in range(len(parts) - 2, 0, -1):
        cur = parts[k] + cur
        out.append(cur)
    return out


def shared_class(paths):
    """none | strong | weak for a set of dotted paths (see RULE of C12).  strong: some
    files share a base name and EVERY file has a candidate prefix (a trailing sub-path
    without its first component) that is a candidate of no other file - whatever the
    order in which the files are parsed, a unique prefix exists for each.  weak: some
    file has none (a/util + b/util; x/a/util + y/a/util), the scheme may have to refuse."""
    paths = sorted(set(paths))
    bases = collections.Counter(p.split('.')[-1] for p in paths)
    if not any(v >= 2 for v in bases.values()):
        return 'none'
    cands = {p: prefix_candidates(p) for p in paths}
    for p in paths:
        others = set(c for q in paths if q != p for c in cands[q])
        if not any(c not in others for c in cands[p]):
            return 'weak'
    return 'strong'


def max_same_parent(paths):
    """Largest number of files sharing their last TWO path components."""
    c = collections.Counter(tuple(p.split('.')[-2:]) for p in set(paths)
                            if len(p.split('.')) >= 2)
    return max(c.values()) if c else 0


def gen_tree(rng):
    """-> (mods, meta, labels, excluded)"""
    labels, excluded = set(), {}
    n = rng.choice([1, 2, 2, 3, 3, 3, 4, 4, 5])
    shape, edges = gen_edges(rng, n)
    paths, _ = gen_paths(rng, n)
    n_roots = rng.choice([1, 1, 2, 2, 3])
    mods = [None] * (n + 1)
    mods[0] = {'path': 'main', 'root': 0}
    for j in range(1, n + 1):
        mods[j] = {'path': paths[j - 1], 'root': rng.randrange(n_roots)}
    rowcache = {}
    for i in range(n, -1, -1):
        gen_module(rng, mods, i, edges[i], labels, excluded, rowcache)
    root_mode = 'list' if n_roots > 1 or rng.random() < 0.3 else 'str'
    meta = {'n_roots': n_roots, 'root_mode': root_mode, 'shape': shape}
    return mods, meta, labels, excluded


# ------------------------------------------------------------------ negative variants

NEG_KINDS = ('cycle', 'undefined', 'unused', 'redefine')


def _use_rule(name, local, sig=None):
    f0 = sig['fields'][0][0] if sig else 0
    return mk_rule(name, ((0, ('var', 'x')),),
                   (('call', local, ((f0, ('var', 'x')),), ()),))


def _reaches(mods, a, b):
    return b in reachable(mods, a)


def redefines_made(mods):
    """Some module defines rules under the local name of an import whose predicate the
    exporting file makes with a functor (`Made := F(K: V)`)."""
    idx = index_of(mods)
    for m in mods:
        heads = set(r['pred'] for r in m['rules'])
        for imp in m['imports']:
            j = idx.get(imp['file'])
            if j is not None and local_of(imp) in heads and \
                    any(f['name'] == imp['pred'] for f in mods[j].get('functors', [])):
                return True
    return False


def make_negative(rng, mods, kind, avoid_made=False):
    """Mutated deep copy of a valid tree that must be rejected; -> (mods, variant) or
    (None, why).  avoid_made: `redefine` never picks an import of a functor-made
    predicate (known finding of C12)."""
    mods = copy.deepcopy(mods)
    n = len(mods) - 1
    idx = index_of(mods)
    if kind == 'cycle':
        x = rng.randint(1, n)
        ys = [y for y in range(1, n + 1) if _reaches(mods, y, x)]
        y = rng.choice(ys)
        pred = rng.choice(sorted(mods[y]['sig']))
        mods[x]['imports'].append({'file': mods[y]['path'], 'pred': pred, 'as': 'Cyc'})
        mods[x]['rules'].append(_use_rule('CycUse', 'Cyc', mods[y]['sig'][pred]))
        return mods, 'self' if x == y else 'len%d' % (1 + len(
            [1 for z in range(1, n + 1) if _reaches(mods, y, z) and _reaches(mods, z, x)
             and z not in (x, y)]))
    if kind == 'undefined':
        i = rng.randint(0, n - 1)
        y = rng.randint(i + 1, n)
        ym = mods[y]
        variants = ['fresh']
        if ym['imports']:
            variants.append('imported_there_not_defined')
        elsewhere = [p for z in range(0, n + 1) if z != y for p in own_names(mods[z])
                     if p not in own_names(ym)]
        if elsewhere:
            variants.append('defined_in_another_file')
        v = rng.choice(variants)
        if v == 'fresh':
            pred = 'Nope'
        elif v == 'imported_there_not_defined':
            pred = local_of(rng.choice(ym['imports']))
        else:
            pred = rng.choice(elsewhere)
        mods[i]['imports'].append({'file': ym['path'], 'pred': pred, 'as': 'Und'})
        mods[i]['rules'].append(_use_rule('UndUse', 'Und'))
        return mods, v
    if kind == 'unused':
        i = rng.randint(0, n - 1)
        y = rng.randint(i + 1, n)
        pred = rng.choice(sorted(mods[y]['sig']))
        v = rng.choice(['plain', 'comment_only', 'other_name_used'])
        mods[i]['imports'].append({'file': mods[y]['path'], 'pred': pred, 'as': 'Idle'})
        if v == 'comment_only':
            mods[i]['comment'] = '# Idle(x) is mentioned in a comment only.'
        elif v == 'other_name_used':
            mods[i]['rules'].append(_use_rule('IdleUse', 'IdleX'))
        return mods, v
    if kind == 'redefine':
        cands = [i for i in range(0, n + 1) if mods[i]['imports']]
        i = rng.choice(cands)
        imp = rng.choice(mods[i]['imports'])
        if avoid_made and any(f['name'] == imp['pred']
                              for f in mods[idx[imp['file']]].get('functors', [])):
            return None, 'redefine_of_functor_made_import'
        sig = mods[idx[imp['file']]]['sig'].get(imp['pred'])
        g = gen.Gen(rng)
        head = tuple((f, g.lit_of(t)) for f, t in sig['fields'])
        val = g.lit_of(sig['value']) if sig.get('value') else None
        v = rng.choice(['fact', 'rule'])
        if v == 'fact':
            mods[i]['rules'].append(mk_rule(local_of(imp), head, (), value=val))
        else:
            mods[i]['rules'].append(mk_rule(local_of(imp), head, (
                ('cmp', '<', ('lit', 1), ('lit', 2)),), value=val))
        if any(f['name'] == imp['pred'] for f in mods[idx[imp['file']]].get('functors', [])):
            v += '_of_made_predicate'
        return mods, v + ('_in_main' if i == 0 else '_in_module')
    raise ValueError(kind)
