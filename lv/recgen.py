"""Generator and reference semantics for recursive programs (C03, also used by C07/C13/C14).

Programs are lv.model ASTs.  Reference: T^k(empty) by simultaneous application of all
rules of the recursive predicates, computed with lv.ref.Evaluator (overrides = previous
state)."""
import collections

from lv import model, ref
from lv.model import mk_rule

L = lambda v: ('lit', v)        # noqa: E731
V = lambda n: ('var', n)        # noqa: E731


def call(p, *args, **named):
    a = tuple((i, x) for i, x in enumerate(args)) + tuple(named.items())
    return ('call', p, a, ())


DEPTHS_SHALLOW = [1, 2, 3, 4, 5, 6, 8]
DEPTHS_DEEP = [12, 19, 20, 21, 22, 25, 30]


def gen_graph(rng, rules, weighted=False):
    n = rng.randint(2, 6)
    nodes = list(range(n))
    shape = rng.choice(['chain', 'cycle', 'tree', 'random', 'random'])
    edges = []
    if shape == 'chain':
        edges = [(i, i + 1) for i in range(n - 1)]
    elif shape == 'cycle':
        edges = [(i, (i + 1) % n) for i in range(n)]
    elif shape == 'tree':
        edges = [(rng.randint(0, i - 1), i) for i in range(1, n)]
    else:
        edges = [(rng.choice(nodes), rng.choice(nodes)) for _ in range(rng.randint(1, 8))]
    if rng.random() < 0.3 and edges:
        edges.append(rng.choice(edges))          # a duplicate fact
    for a, b in edges:
        if weighted:
            rules.append(mk_rule('E', [(0, L(a)), (1, L(b)), (2, L(rng.randint(1, 3)))]))
        else:
            rules.append(mk_rule('E', [(0, L(a)), (1, L(b))]))
    vs = [a for a in nodes if rng.random() < 0.5] or [0]
    for a in vs:
        rules.append(mk_rule('V', [(0, L(a))]))
    return shape, len(edges)


KINDS_BASIC = ['generic', 'generic', 'generic', 'counter', 'shortest', 'negation', 'multiset']


def gen_rec(rng, allow_deep=True, deep_only=False, kinds=None):
    """-> program dict with extra keys: names (recursive candidates), ann, depth,
    iterative, kind, distinct."""
    rules = []
    kind = rng.choice(kinds or ['generic', 'generic', 'generic', 'counter', 'shortest',
                                'negation', 'multiset', 'dneg', 'looppair'])
    labels = {'kind:' + kind}
    weighted = kind == 'shortest'
    shape, ne = gen_graph(rng, rules, weighted)
    labels.add('graph:' + shape)
    names = []
    distinct = True
    force_ann = None
    if kind == 'counter':
        k = rng.randint(2, 12)
        distinct = rng.random() < 0.6
        names = ['Nn']
        rules.append(mk_rule('Nn', [(0, L(0))], distinct=distinct))
        rules.append(mk_rule('Nn', [(0, ('bin', '+', V('n'), L(1)))],
                             [call('Nn', V('n')), ('cmp', '<', V('n'), L(k))],
                             distinct=distinct))
    elif kind == 'shortest':
        names = ['Dd']
        op = rng.choice(['Min', 'Min', 'Max'])
        labels.add('agg_recursion:' + op)
        rules.append(mk_rule('Dd', [(0, V('x'))], [call('V', V('x'))],
                             value=('AGG', op, L(0))))
        step = ('bin', '+', ('fcall', 'Dd', ((0, V('x')),)), V('w'))
        body = [call('E', V('x'), V('y'), V('w'))]
        if op == 'Max':
            # keep Max-recursion bounded: only along increasing node ids
            body.append(('cmp', '<', V('x'), V('y')))
        rules.append(mk_rule('Dd', [(0, V('y'))], body, value=('AGG', op, step)))
    elif kind == 'negation':
        names = ['Rr']
        for a in range(6):
            if rng.random() < 0.3:
                rules.append(mk_rule('Bb', [(0, L(a))]))
        if not any(r['pred'] == 'Bb' for r in rules):
            rules.append(mk_rule('Bb', [(0, L(5))]))
        rules.append(mk_rule('Rr', [(0, V('x'))], [call('V', V('x'))], distinct=True))
        rules.append(mk_rule('Rr', [(0, V('y'))],
                             [call('Rr', V('x')), call('E', V('x'), V('y')),
                              ('neg', (call('Bb', V('y')),), 0)], distinct=True))
    elif kind == 'dneg':
        # monotone recursion through a double negation: "all predecessors are in";
        # the recursive call occurs only inside the negation
        names = ['Rr']
        if rng.random() < 0.7:
            # keep the graph's roots out of the given set V: they are then derived by the
            # negation rule alone (vacuously), from the very first application on
            heads_in = set(r['head'][1][1][1] for r in rules if r['pred'] == 'E')
            rules[:] = [r for r in rules if not (r['pred'] == 'V' and
                                                 r['head'][0][1][1] not in heads_in)]
            if not any(r['pred'] == 'V' for r in rules):
                rules.append(mk_rule('V', [(0, L(20))]))
            labels.add('dneg_roots_not_given')
        rules.append(mk_rule('Rr', [(0, V('x'))], [call('V', V('x'))], distinct=True))
        inner = (call('E', V('y'), V('x')), ('neg', (call('Rr', V('y')),), 0))
        # candidates x are sources of edges: a source without predecessors that is not
        # in V is derived (vacuously) by this rule alone, already from the empty relation
        src = rng.choice(['Eout', 'Eout', 'Ein', 'V'])
        first = (call('E', V('x'), V('z')) if src == 'Eout' else
                 call('E', V('z'), V('x')) if src == 'Ein' else call('V', V('x')))
        rules.append(mk_rule('Rr', [(0, V('x'))], [first, ('neg', inner, 0)], distinct=True))
    elif kind == 'looppair':
        # two members, only ONE of which cuts every cycle (it has a self loop, the other
        # has none): annotating the other one must still unfold depth+1 joint steps
        names = ['Ra', 'Rb']
        rng.shuffle(names)
        a, b = names            # a: self loop + reads b;  b: reads a
        rules.append(mk_rule(a, [(0, V('x'))], [call('V', V('x'))], distinct=True))
        rules.append(mk_rule(a, [(0, V('y'))], [call(a, V('x')), call('E', V('x'), V('y'))],
                             distinct=True))
        rules.append(mk_rule(a, [(0, V('x'))], [call(b, V('x'))], distinct=True))
        rules.append(mk_rule(b, [(0, V('y'))], [call(a, V('x')), call('E', V('x'), V('y'))],
                             distinct=True))
        if rng.random() < 0.5:
            rules.append(mk_rule(b, [(0, V('x'))], [call('V', V('x'))], distinct=True))
        labels.add('component:looppair')
        force_ann = b if rng.random() < 0.7 else a
    else:
        distinct = kind != 'multiset'
        k = rng.choice([1, 1, 2, 2, 3]) if distinct else rng.choice([1, 1, 2])
        names = rng.sample(['Ra', 'Rb', 'Rc', 'Rd'], k)
        ar = {n: rng.choice([1, 2]) for n in names}
        shape = rng.choice(['ring', 'dense']) if k > 1 else 'self'
        labels.add('component:' + shape)
        vs = ['x', 'y', 'z', 'w', 'u']
        for i, n in enumerate(names):
            if i == 0 or rng.random() < 0.4:
                if ar[n] == 2:
                    rules.append(mk_rule(n, [(0, V('x')), (1, V('y'))],
                                         [call('E', V('x'), V('y'))], distinct=distinct))
                else:
                    rules.append(mk_rule(n, [(0, V('x'))], [call('V', V('x'))],
                                         distinct=distinct))
            if shape == 'self':
                deps = [n] if (not distinct or rng.random() < 0.5) else [n, n]
            elif shape == 'ring':
                deps = [names[(i + 1) % k]]
            else:
                deps = [names[(i + 1) % k], rng.choice(names)] if distinct \
                    else [names[(i + 1) % k]]
            dsets = [deps] + ([[rng.choice(names)]] if shape == 'dense' else [])
            for dset in dsets:
                body = []
                cur = 'x'
                chain = ['x']
                for d in dset:
                    if ar[d] == 2:
                        nxt = vs[len(chain)]
                        body.append(call(d, V(cur), V(nxt)))
                        chain.append(nxt)
                        cur = nxt
                    else:
                        body.append(call(d, V(cur)))
                if rng.random() < 0.7:
                    nxt = vs[len(chain)]
                    body.append(call('E', V(cur), V(nxt)))
                    chain.append(nxt)
                    cur = nxt
                if rng.random() < 0.3:
                    body.append(('cmp', rng.choice(['<', '!=', '<=']),
                                 V(chain[0]), V(chain[-1])))
                if ar[n] == 2:
                    head = [(0, V(chain[0])), (1, V(chain[-1]))]
                else:
                    head = [(0, V(rng.choice([chain[0], chain[-1]])))]
                rng.shuffle(body)
                rules.append(mk_rule(n, head, body, distinct=distinct))
    # depth and annotation
    r = rng.random()
    if kind == 'looppair' and r < 0.25:
        r = 0.5                 # looppair is about the annotated member: always annotate
    ann = None
    depth = 8
    iterative = False
    explicit_iter = False
    if deep_only:
        depth = rng.choice([21, 22, 25, 30])
        ann = rng.choice(names)
    elif r < 0.25:
        pass                                        # default depth 8
    elif r < 0.8 or not allow_deep:
        depth = rng.choice(DEPTHS_SHALLOW)
        ann = rng.choice(names)
    else:
        depth = rng.choice(DEPTHS_DEEP)
        ann = rng.choice(names)
    if kind == 'looppair' and ann is not None:
        ann = force_ann
    if kind == 'dneg' and not deep_only and rng.random() < 0.6:
        depth = rng.choice([1, 2, 3, 4])
        ann = names[0]
    if kind == 'multiset' and depth > 4:
        depth = rng.randint(1, 4)
        ann = rng.choice(names)
    if kind == 'counter' and not distinct and depth > 6:
        depth = rng.randint(1, 6)
        ann = names[0]
    if kind == 'counter' and distinct and depth > 12:
        # a deep plan only shows its number of applications on a program that is still
        # growing at the bound: let the counter run to about depth (+-)
        k = rng.randint(depth - 2, depth + 5)
        r_last = rules[-1]
        rules[-1] = mk_rule('Nn', r_last['head'],
                            [call('Nn', V('n')), ('cmp', '<', V('n'), L(k))], distinct=True)
        labels.add('counter_reaches_bound')
    if ann and depth <= 20 and rng.random() < 0.12:
        explicit_iter = True
    prog = {'rules': rules, 'inj': {}, 'ann': [], 'names': names, 'ann_pred': ann,
            'depth': depth, 'explicit_iter': explicit_iter, 'kind': kind,
            'distinct': distinct, 'labels': sorted(labels)}
    set_annotation(prog)
    return prog


def set_annotation(prog):
    prog['ann'] = []
    if prog['ann_pred']:
        extra = ', iterative: true' if prog.get('explicit_iter') else ''
        prog['ann'].append('@Recursive(%s, %d%s);' % (prog['ann_pred'], prog['depth'],
                                                      extra))


# ----------------------------------------------------------------- analysis

def direct_deps(prog):
    from lv.props import common
    dd = collections.defaultdict(set)
    for r in prog['rules']:
        dd[r['pred']] |= common.deps_of_rule(r)
    return dd


def components(prog):
    """Recursive components (SCCs with a cycle) among all predicates."""
    dd = direct_deps(prog)
    preds = []
    for r in prog['rules']:
        if r['pred'] not in preds:
            preds.append(r['pred'])
    reach = {}
    for n in preds:
        seen = set()
        stack = [n]
        while stack:
            t = stack.pop()
            for d in dd.get(t, ()):
                if d not in seen:
                    seen.add(d)
                    stack.append(d)
        reach[n] = seen
    comps = []
    done = set()
    for n in sorted(preds):
        if n in done or n not in reach[n]:
            continue
        c = {m for m in preds if m in reach[n] and n in reach.get(m, ())} | {n}
        comps.append(c)
        done |= c
    return comps, dd


def classify(prog, comp, dd):
    """Our own reading of how the component is unfolded: (depth, root, cut, iterative)."""
    ann = prog.get('ann_pred')
    ann_in = {ann} & comp if ann else set()
    depth = prog['depth'] if ann_in else 8
    root = min(ann_in) if ann_in else min(comp)
    sub = comp - {root}
    color = {}

    def dfs(n):
        color[n] = 1
        for d in dd.get(n, set()) & sub:
            if color.get(d) == 1:
                return False
            if d not in color and not dfs(d):
                return False
        color[n] = 2
        return True
    cut = all(dfs(n) for n in sorted(sub) if n not in color)
    iterative = depth > 20 or bool(ann_in and prog.get('explicit_iter'))
    return depth, root, cut, iterative


def step_eval(prog, rec, steps, budget=300000, stop_when_stable=False):
    """T^steps(empty) for the recursive predicates `rec`; returns (state, history
    of per-step row counters, converged_at or None)."""
    state = {n: [] for n in rec}
    hist = []
    converged = None
    hoister = ref.Hoister(prog.get('inj', {}))
    rules_of = collections.OrderedDict()
    for r in prog['rules']:
        rules_of.setdefault(r['pred'], []).append(hoister.rule(r))
    base_cache = {}
    bud = ref.Budget(budget)
    for i in range(steps):
        ev = ref.Evaluator(prog, overrides=state, rules_of=rules_of)
        ev.budget = bud
        ev.cache = base_cache            # non-recursive predicates never change
        new = {}
        for n in sorted(rec):
            new[n] = ev.eval_pred(n)
        for n in rec:
            base_cache.pop(n, None)
        # predicates that depend on recursive ones must not be cached across steps
        for k in list(base_cache):
            if k not in rec and depends_on(prog, k, rec):
                base_cache.pop(k)
        snap = {n: collections.Counter(tuple(sorted((str(f), repr(v)) for f, v in r.items()))
                                       for r in new[n]) for n in rec}
        if hist and snap == hist[-1] and converged is None:
            converged = i          # T^i == T^(i+1)
            if stop_when_stable:
                state = new
                hist.append(snap)
                break
        hist.append(snap)
        state = new
    return state, hist, converged


_dep_cache = {}


def depends_on(prog, k, rec):
    key = (id(prog), k)
    if key not in _dep_cache:
        dd = direct_deps(prog)
        seen = set()
        stack = [k]
        while stack:
            t = stack.pop()
            for d in dd.get(t, ()):
                if d not in seen:
                    seen.add(d)
                    stack.append(d)
        _dep_cache[key] = seen
    return bool(_dep_cache[key] & set(rec))


def live_within(prog, comp, dd, bound):
    """Syntactic liveness: every member has, within `bound` steps, a rule all of whose
    recursive calls are live one step earlier (documentation: a recursive predicate
    needs a non-recursive disjunct for the iteration to kick off)."""
    from lv.props import common
    live = set()
    for step in range(bound):
        new = set(live)
        for r in prog['rules']:
            if r['pred'] in comp and r['pred'] not in live:
                if all(d in live for d in common.deps_of_rule(r) & comp):
                    new.add(r['pred'])
        if new == live:
            break
        live = new
    return live >= comp
