"""Functor profile (C04): programs with `N := F(A: B, ...)` statements.

Three independent pieces:

* FunctorEval   reference semantics by DYNAMIC REBINDING: a made predicate N := F(A: B)
                is "F's definition evaluated in the environment in which the name A
                resolves to the relation B has in the environment of the application".
                No rule is cloned, nothing is renamed.
* expand        the substitution done BY HAND on our AST: every application becomes
                ordinary rules (the functor's rules and the rules of every predicate
                between the functor and an argument are copied under fresh names,
                references re-pointed), giving one program without `:=`.
* FGen          typed generator of layered non-recursive programs with functor
                applications (built on lv.gen.Gen).

A program is an lv.model program dict with two extra keys:
  make     list of (new_name, functor, ((arg_pred, ('pred', name) | ('const', v)), ..))
  make_at  list of rule indices (text position of each statement)
None of this shares code with /repo/compiler/functors.py.
"""
import collections
import os

from lv import gen, model, ref, xform
from lv.model import mk_rule


class InvalidApplication(Exception):
    pass


# ----------------------------------------------------------------- makes as tuples

def norm_makes(makes):
    out = []
    for mk in makes or ():
        args = tuple((a, (v[0], v[1])) for a, v in mk[2])
        out.append((mk[0], mk[1], args))
    return out


def prog_from_json(j):
    p = model.prog_from_json(j)
    p['make'] = norm_makes(j.get('make'))
    p['make_at'] = list(j.get('make_at') or [])
    return p


# ----------------------------------------------------------------- predicate references

def _map_rule_preds(r, fn):
    """Copy of rule r with every referenced predicate name n replaced by fn(n)
    (calls in bodies at any nesting, functional calls in any expression)."""
    def ex(x):
        if x[0] == 'fcall':
            return ('fcall', fn(x[1]), x[2])
        return x

    def lf(l, nested, in_or):
        l = xform.map_lit_exprs(l, ex)
        if l[0] == 'call':
            l = ('call', fn(l[1])) + tuple(l[2:])
        return [l]
    r2 = dict(r)
    r2['body'] = xform.map_body(r['body'], lf)
    head = []
    for f, hx in r['head']:
        if hx[0] == 'AGG':
            head.append((f, ('AGG', hx[1], xform.map_expr(hx[2], ex))))
        else:
            head.append((f, xform.map_expr(hx, ex)))
    r2['head'] = tuple(head)
    v = r.get('value')
    if v is not None:
        r2['value'] = ('AGG', v[1], xform.map_expr(v[2], ex)) if v[0] == 'AGG' \
            else xform.map_expr(v, ex)
    return r2


def rule_refs(r):
    out = []

    def fn(n):
        if n not in out:
            out.append(n)
        return n
    _map_rule_preds(r, fn)
    return out


class DepGraph(object):
    """Dependency graph of a program WITHOUT functor statements."""

    def __init__(self, rules):
        self.rules_of = collections.OrderedDict()
        for r in rules:
            self.rules_of.setdefault(r['pred'], []).append(r)
        self._direct = {}
        self._reach = {}
        self._longest = {}

    def direct(self, p):
        if p not in self._direct:
            out = []
            for r in self.rules_of.get(p, ()):
                for n in rule_refs(r):
                    if n not in out:
                        out.append(n)
            self._direct[p] = out
        return self._direct[p]

    def reach(self, p):
        """Predicates p's definition transitively refers to (ordered, p excluded
        unless recursive)."""
        if p not in self._reach:
            out, stack = [], list(reversed(self.direct(p)))
            while stack:
                n = stack.pop()
                if n in out:
                    continue
                out.append(n)
                stack.extend(reversed(self.direct(n)))
            self._reach[p] = out
        return self._reach[p]

    def longest(self, p, target):
        """Number of predicates strictly between p and target on the longest
        dependency path (0: p refers to target directly); None if unreachable."""
        if (p, target) in self._longest:
            return self._longest[(p, target)]
        self._longest[(p, target)] = None        # cycle guard
        best = None
        for n in self.direct(p):
            if n == target:
                d = 0
            else:
                sub = self.longest(n, target)
                d = None if sub is None else sub + 1
            if d is not None and (best is None or d > best):
                best = d
        self._longest[(p, target)] = best
        return best


# ----------------------------------------------------------------- annotations

def ann_lines(prog):
    """@OrderBy / @Limit statements for prog['order_by'] {pred: [(field, desc)..]} and
    prog['limit'] {pred: k} (the maps the reference evaluator reads)."""
    out = []
    for name in sorted(prog.get('order_by') or {}):
        keys = ['"%s%s"' % ('col%d' % c if isinstance(c, int) else c,
                            ' desc' if desc else '')
                for c, desc in prog['order_by'][name]]
        out.append('@OrderBy(%s, %s);' % (name, ', '.join(keys)))
    for name in sorted(prog.get('limit') or {}):
        out.append('@Limit(%s, %d);' % (name, prog['limit'][name]))
    return out


def rename_program(prog, m):
    """The same program with predicates renamed by the injective map m."""
    ren = lambda n: m.get(n, n)
    p = dict(prog)
    p['rules'] = [dict(_map_rule_preds(r, ren), pred=ren(r['pred']))
                  for r in prog['rules']]
    p['make'] = [(ren(n), ren(f), tuple((ren(a), ('pred', ren(v[1])) if v[0] == 'pred'
                                         else v) for a, v in args))
                 for n, f, args in norm_makes(prog.get('make'))]
    for k in ('order_by', 'limit', 'sig'):
        if prog.get(k):
            p[k] = {ren(a): b for a, b in prog[k].items()}
    if 'preds' in prog:
        p['preds'] = [ren(x) for x in prog['preds']]
    p['ann'] = ann_lines(p)
    return p


# ----------------------------------------------------------------- substitution by hand

def expand(prog):
    """-> (program without `:=`, info).  info['makes'][N] = {'keys', 'functor',
    'clones': {predicate: its copy}}; info['origin'][copy] = source predicate it is a
    (copy of a ...) copy of."""
    rules = list(prog['rules'])
    makes = norm_makes(prog.get('make'))
    names = set(r['pred'] for r in rules) | set(prog.get('inj', {})) | \
        set(mk[0] for mk in makes)
    made_names = [mk[0] for mk in makes]
    if len(set(made_names)) != len(made_names):
        raise InvalidApplication('name made twice')
    for n in made_names:
        if any(r['pred'] == n for r in rules):
            raise InvalidApplication('made name has rules: ' + n)
    counter = [0]
    const_pred = {}
    info = {'makes': {}, 'origin': {}}
    order_by = dict(prog.get('order_by') or {})
    limit = dict(prog.get('limit') or {})

    def fresh(base):
        while True:
            counter[0] += 1
            n = '%sH%d' % (base, counter[0])
            if n not in names:
                names.add(n)
                return n

    pending = list(makes)
    while pending:
        g = DepGraph(rules)
        unresolved = set(mk[0] for mk in pending)
        progressed = False
        for mk in pending:
            name, functor, args = mk
            if functor not in g.rules_of:
                if functor in unresolved:
                    continue
                raise InvalidApplication('functor %s has no rules' % functor)
            R = g.reach(functor)
            if unresolved & set(R):
                continue
            keys = [a for a, v in args]
            if len(set(keys)) != len(keys):
                raise InvalidApplication('argument bound twice')
            for a in keys:
                if a not in R:
                    raise InvalidApplication('%s is not involved in %s' % (a, functor))
            m = collections.OrderedDict()
            m[functor] = name
            clones = collections.OrderedDict()
            for p in R:
                if p in keys or p not in g.rules_of:
                    continue
                if set(g.reach(p)) & set(keys):
                    clones[p] = m[p] = fresh(p)
                    info['origin'][m[p]] = info['origin'].get(p, p)
            new_rules = []
            for a, v in args:
                if v[0] == 'pred':
                    m[a] = v[1]
                else:
                    ck = repr(v[1])
                    if ck not in const_pred:
                        const_pred[ck] = fresh('Lit')
                        new_rules.append(mk_rule(const_pred[ck], (), (),
                                                 value=('lit', v[1])))
                    m[a] = const_pred[ck]
            for r in rules:
                if r['pred'] == functor or r['pred'] in clones:
                    r2 = _map_rule_preds(r, lambda n: m.get(n, n))
                    r2['pred'] = m[r['pred']]
                    new_rules.append(r2)
            rules = rules + new_rules
            # a copy keeps the ordering / limit of the predicate it is a copy of
            for old, new in list(clones.items()) + [(functor, name)]:
                if old in order_by:
                    order_by[new] = order_by[old]
                if old in limit:
                    limit[new] = limit[old]
            info['makes'][name] = {'keys': keys, 'clones': dict(clones),
                                   'functor': functor}
            pending = [x for x in pending if x[0] != name]
            progressed = True
            break
        if not progressed:
            raise InvalidApplication('functor applications depend on each other')
    p2 = {k: v for k, v in prog.items() if k not in ('make', 'make_at')}
    p2['rules'] = rules
    if order_by or limit:
        p2['order_by'], p2['limit'] = order_by, limit
        p2['ann'] = ann_lines(p2)
    return p2, info


# ----------------------------------------------------------------- reference semantics

class FunctorEval(ref.Evaluator):
    """Reference evaluator with dynamic rebinding of predicate names.

    self.overrides is the environment: name -> relation (rows).  A made predicate
    N := F(A: B, K: 5) is evaluated as: take the relations B has HERE, extend the
    environment with A -> that relation, K -> {(logica_value: 5)}, and evaluate the
    DEFINITION of F there (N's link to F is not itself a rebindable reference)."""

    def __init__(self, prog, makes=None, overrides=None, budget=400000, rules_of=None,
                 quirks=(), budget_obj=None):
        ref.Evaluator.__init__(self, prog, overrides=overrides, budget=budget,
                               rules_of=rules_of, quirks=quirks)
        if budget_obj is not None:
            self.budget = budget_obj
        if makes is None:
            makes = prog.get('make') or ()
        self.makes = collections.OrderedDict((mk[0], mk) for mk in norm_makes(makes))
        self.depth = 0

    def rows(self, name):
        if name in self.overrides:
            return self.overrides[name]
        return self.definition(name)

    def definition(self, name):
        if name in self.cache:
            return self.cache[name]
        mk = self.makes.get(name)
        if mk is None:
            if name not in self.rules_of:
                raise KeyError('undefined predicate ' + name)
            rows = self.eval_pred(name)
        else:
            if self.depth > 40:
                raise ref.Stuck('functor applications depend on each other')
            env = dict(self.overrides)
            bound = {}
            for a, v in mk[2]:
                if v[0] == 'pred':
                    bound[a] = self.rows(v[1])
                else:
                    bound[a] = [collections.OrderedDict([('logica_value', v[1])])]
            env.update(bound)
            child = FunctorEval(self.prog, makes=list(self.makes.values()),
                                overrides=env, rules_of=self.rules_of,
                                quirks=self.quirks, budget_obj=self.budget)
            child.depth = self.depth + 1
            rows = child.definition(mk[1])
        self.cache[name] = rows
        return rows

    def fields(self, name):
        seen = 0
        while name in self.makes and seen < 100:
            name = self.makes[name][1]
            seen += 1
        return ref.Evaluator.fields(self, name)


def source_names(prog):
    out = []
    for r in prog['rules']:
        if r['pred'] not in out:
            out.append(r['pred'])
    for mk in prog.get('make') or ():
        if mk[0] not in out:
            out.append(mk[0])
    return out


def depends_on_made(prog):
    """Source predicates whose definition involves a made predicate (incl. the made
    ones themselves)."""
    x, info = expand(prog)
    g = DepGraph(x['rules'])
    made = [mk[0] for mk in prog.get('make') or ()]
    out = []
    for p in source_names(prog):
        if p in made or set(g.reach(p)) & set(made):
            out.append(p)
    return out


def make_features(prog):
    """Structural labels of every functor application (own dependency analysis)."""
    makes = norm_makes(prog.get('make'))
    x, info = expand(prog)
    g = DepGraph(x['rules'])
    edb = set(p for p, rs in DepGraph(prog['rules']).rules_of.items()
              if all(not r['body'] for r in rs))
    made = set(mk[0] for mk in makes)
    feats = collections.OrderedDict()
    for name, functor, args in makes:
        f = set()
        keys = [a for a, v in args]
        # the shape of F is looked at in the expanded program: F may itself be made
        depth = -1
        for a in keys:
            d = g.longest(functor, a)
            if d is None:
                continue
            depth = max(depth, d)
            if a in g.direct(functor):
                f.add('arg_direct')
            if d >= 1:
                f.add('arg_through_chain')
        f.add('chain%d' % min(depth, 4) if depth >= 0 else 'chain_none')
        if depth >= 1:
            f.add('chained')
        if len(keys) >= 2:
            f.add('multi_arg')
            if any(a != b and a in g.reach(b) for a in keys for b in keys):
                f.add('arg_below_arg')
        nclones = len(info['makes'][name]['clones'])
        f.add('clones%d' % min(nclones, 4))
        if functor in made:
            f.add('functor_is_made')
        below = [m for m in g.reach(functor) if m in made]
        if below:
            f.add('functor_reaches_made')
            if any(m not in g.direct(functor) for m in below):
                f.add('reaches_made_only_via_intermediate')
            if any(a in g.reach(m) for m in below for a in keys):
                f.add('arg_below_made')
                if any(a in g.reach(m) and a in g.direct(functor)
                       for m in below for a in keys):
                    f.add('arg_below_made_and_direct')
        lim = x.get('limit') or {}
        if functor in lim:
            f.add('functor_has_limit')
        if any(q in lim for q in g.reach(functor)):
            f.add('limit_in_definition')
        if any(c in lim for c in info['makes'][name]['clones']):
            f.add('copied_predicate_has_limit')
        vals = [v[1] for a, v in args if v[0] == 'pred']
        if any(v in keys for v in vals):
            f.add('value_is_other_arg')
            if any(dict(args).get(v[1]) == ('pred', a) for a, v in args
                   if v[0] == 'pred'):
                f.add('args_swapped')
        for a, v in args:
            if a in made:
                f.add('arg_is_made')
            if v[0] == 'const':
                f.add('value_literal')
                continue
            b = v[1]
            if b in made:
                f.add('value_is_made')
            elif b in edb and prog.get('sig', {}).get(b, {}).get('fields'):
                f.add('value_facts')
            elif not prog.get('sig', {}).get(b, {'fields': 1}).get('fields'):
                f.add('value_constant_predicate')
            else:
                f.add('value_derived')
            if a in g.reach(b):
                f.add('value_depends_on_arg')
            if functor in g.reach(b):
                f.add('value_depends_on_functor')
        if any(not prog.get('sig', {}).get(a, {'fields': 1}).get('fields') for a in keys):
            f.add('arg_is_constant')
        mine = dict(args)
        for n2, f2, a2 in makes:
            if n2 == name or f2 != functor:
                continue
            other = dict(a2)
            if other == mine:
                f.add('same_functor_equal_bindings')
            else:
                f.add('same_functor_different_bindings')
                # an intermediate that sees only the common part of the bindings
                common = set(k for k in mine if k in other and other[k] == mine[k])
                if common:
                    f.add('bindings_partly_equal')
                    for c in info['makes'][name]['clones']:
                        below = set(g.reach(c)) & (set(mine) | set(other))
                        if below and below <= common:
                            f.add('shared_intermediate_expected')
        feats[name] = f
    return feats


def rebind_ambiguous(g, functor):
    """Source predicates of which the definition of `functor` (expanded program graph
    g with g.origin) contains a private copy."""
    return set(g.origin[c] for c in g.reach(functor) if c in g.origin)


# ----------------------------------------------------------------- generator

EXCLUDE_REBIND_COPIED = os.environ.get('VERIF_C04_REBIND_COPIED', '') != 'include'

CONST_N = [0, 1, 2, 3, 5, 7, 11]
CONST_S = ['a', 'b', 'c', 'ab', 'zz']

FDEFAULTS = dict(
    n_edb=(2, 3), n_inj=(0, 1), n_idb=(3, 5), p_if=0.08, n_const=(0, 0, 1, 1, 2),
    steps=(3, 6), p_chain=0.8, p_second_must=0.25, p_const_use=0.45,
    p_colnames=0.0, p_neg=0.08, p_agg=0.1, p_distinct=0.25, p_or=0.12, p_fcall=0.1,
    agg_ops=('Sum', 'Min', 'Max', '+'), p_two_rules=0.2, p_composite_col=0.1,
    max_pred_rows=30, max_rows=4, p_cross=0.3, p_twin_edb=0.5, p_annotate=0.2, p_deep=0.2,
)


class FGen(gen.Gen):
    def __init__(self, rng, **opts):
        o = dict(FDEFAULTS)
        o.update(opts)
        gen.Gen.__init__(self, rng, **o)
        self.everything = []     # every callable source predicate so far
        self.must = []
        self.must_consts = []
        self.ok_consts = []
        self.forced_sig = None
        self.consts = collections.OrderedDict()
        self.makes = []
        self.idbs = []
        self.consumers = []
        self.counter = collections.Counter()
        self.order_by = {}
        self.limit = {}

    # -- hooks into Gen
    def new_sig(self, allow_composite=False, named_p=None):
        if self.forced_sig is not None:
            s = self.forced_sig
            return {'fields': tuple((f, t) for f, t in s['fields']), 'value': s['value']}
        return gen.Gen.new_sig(self, allow_composite, named_p)

    def body(self, env, depth=1, nlit=None):
        rng = self.rng
        lits = []
        for m in self.must:
            lits.append(self.call(env, name=m))
        for k in self.must_consts:
            v = self.newvar(env, self.consts[k])
            self.roots.add(v)
            lits.append(('assign', v, ('fcall', k, ()), rng.choice(['==', '='])))
        n = nlit or rng.randint(0 if lits else 1, 1 if len(lits) > 1 else 2)
        for _ in range(n):
            lits.append(self.binding_literal(env, depth))
        for _ in range(rng.choice((0, 0, 1, 1, 2))):
            lits.append(self.filter_literal(env, depth))
        return lits

    def fcall(self, t, env, depth):
        cands = [k for k in self.ok_consts if self.consts[k] == t]
        if cands and self.rng.random() < 0.6:
            self.labels.add('constant_call')
            return ('fcall', self.rng.choice(cands), ())
        return gen.Gen.fcall(self, t, env, depth)

    def idb_nonempty(self, name, maker=None):
        """Draw the predicate again while the reference finds it empty or larger than
        max_pred_rows (layers multiply: without the cap relations explode); the last
        attempts force `distinct` where that keeps the signature."""
        maker = maker or self.idb
        cap = self.o['max_pred_rows']
        sig = self.forced_sig
        can_distinct = sig is None or all(t in gen.ATOMS for f, t in sig['fields'])
        saved = self.o['p_distinct']
        try:
            for attempt in range(6):
                n_rules = len(self.rules)
                snapshot = (dict(self.sig), list(self.concrete))
                if attempt >= 4 and can_distinct:
                    self.o['p_distinct'] = 1.0
                # an empty predicate makes everything above it empty: after two free
                # draws fall back to a plain projection of the predicates it must read
                (maker if attempt < 2 else self.idb_simple)(name)
                try:
                    n = len(self.evaluator(60000).rows(name))
                except Exception:
                    n = cap + 1
                if attempt == 5 or 0 < n <= cap or (n == 0 and self.chance(0.03)):
                    if n > cap:
                        self.excl('kept_large_predicate')
                    return
                del self.rules[n_rules:]
                self.sig, self.concrete = snapshot
                self.excl('regenerated_empty_predicate' if n == 0
                          else 'regenerated_large_predicate')
        finally:
            self.o['p_distinct'] = saved

    def idb_simple(self, name):
        """P(exprs over v..) :- Must1(v..), Must2(w..): non-empty whenever the
        predicates it reads are."""
        s = self.new_sig(allow_composite=False)
        env = {}
        self.used, self.roots = set(), set()
        self._sib_locals, self._agg_results = set(), []
        body = [self.call(env, name=m, fresh_only=True) for m in self.must]
        if not body:
            body.append(self.call(env, fresh_only=True))
        for k in self.must_consts:
            v = self.newvar(env, self.consts[k])
            self.roots.add(v)
            body.append(('assign', v, ('fcall', k, ()), '=='))
        head = [(f, self.expr(t, env, 1, allow_fcall=False)) for f, t in s['fields']]
        val = self.expr(s['value'], env, 1, allow_fcall=False) if s['value'] else None
        self.rng.shuffle(body)
        self.rules.append(mk_rule(name, head, body, value=val,
                                  distinct=self.chance(self.o['p_distinct'])))
        self.sig[name] = s
        self.concrete.append(name)
        self.labels.add('plain_projection_fallback')

    def evaluator(self, budget=100000):
        return FunctorEval({'rules': self.rules, 'inj': self.inj,
                            'order_by': self.order_by, 'limit': self.limit},
                           makes=self.makes, budget=budget)

    # -- building blocks
    def fresh(self, prefix):
        n = '%s%d' % (prefix, self.counter[prefix])
        self.counter[prefix] += 1
        return n

    def add_edb(self, name, sig=None):
        self.forced_sig = sig
        try:
            self.concrete = []
            self.edb(name)
        finally:
            self.forced_sig = None
        self.everything.append(name)

    def add_twin_facts(self, name, a):
        """Fact predicate with the signature of `a` whose rows are variations of a's
        rows (most values kept, so joins and constant filters of the functor still
        match) but a different multiset."""
        rng = self.rng
        sig = self.sig[a]
        try:
            base = [r for r in self.evaluator().rows(a)
                    if all(v is not None for v in r.values())]
        except Exception:
            base = []
        if not base or not sig['fields']:
            return self.add_edb(name, sig)
        cols = [f for f, t in sig['fields']] + (['logica_value'] if sig['value'] else [])
        types = [t for f, t in sig['fields']] + ([sig['value']] if sig['value'] else [])

        def lit(v, t):
            if t == 'R':
                return ('rec', (('a', ('lit', v.get('a'))), ('b', ('lit', v.get('b')))))
            if t in ('LN', 'LS'):
                return ('lit', list(v))
            return ('lit', v)
        rows = []
        for _ in range(rng.randint(1, self.o['max_rows'] + 1)):
            src = rng.choice(base)
            row = []
            for c, t in zip(cols, types):
                r = rng.random()
                if r < 0.6:
                    row.append(lit(src[c], t))
                elif r < 0.8:
                    row.append(lit(rng.choice(base)[c], t))
                else:
                    row.append(self.lit_of(t))
            rows.append(tuple(row))
        if rng.random() < 0.3:
            rows.append(rng.choice(rows))              # a duplicate fact
        if sorted(map(repr, rows)) == sorted(
                repr(tuple(lit(r[c], t) for c, t in zip(cols, types))) for r in base):
            rows.append(tuple(self.lit_of(t) for t in types))
        for row in rows:
            head = tuple((f, v) for (f, t), v in zip(sig['fields'], row))
            for (f, t), v in zip(sig['fields'], row):
                self.colvals.setdefault((name, f), []).append(v)
            self.rules.append(mk_rule(name, head, (),
                                      value=row[-1] if sig['value'] else None))
        self.sig[name] = {'fields': tuple((f, t) for f, t in sig['fields']),
                          'value': sig['value']}
        self.everything.append(name)
        self.labels.add('twin_facts_from_argument_rows')

    def add_const(self, name, t=None, expr=None):
        t = t or self.rng.choice(gen.ATOMS)
        if expr is None:
            expr = ('lit', self.rng.choice(CONST_N if t == 'N' else CONST_S))
        self.consts[name] = t
        self.sig[name] = {'fields': (), 'value': t}
        self.rules.append(mk_rule(name, (), (), value=expr))

    def define(self, name, must, may=(), mconst=(), okconst=(), sig=None):
        self.concrete = []
        for p in list(must) + list(may):
            if p not in self.concrete:
                self.concrete.append(p)
        self.must, self.must_consts = list(must), list(mconst)
        self.ok_consts = list(mconst) + [k for k in okconst if k not in mconst]
        self.forced_sig = sig
        saved = (self.o['p_distinct'], self.o['p_fcall'])
        if sig is not None:
            self.o['p_distinct'] = 0.0
        if self.ok_consts:
            self.o['p_fcall'] = max(self.o['p_fcall'], 0.2)
        try:
            self.idb_nonempty(name)
        finally:
            self.o['p_distinct'], self.o['p_fcall'] = saved
            self.must, self.must_consts, self.ok_consts = [], [], []
            self.forced_sig = None
        self.everything.append(name)

    def snapshot(self):
        return (len(self.rules), dict(self.sig), list(self.everything), list(self.makes),
                collections.OrderedDict(self.consts), collections.Counter(self.counter),
                dict(self.colvals), list(self.idbs), list(self.consumers))

    def restore(self, s):
        del self.rules[s[0]:]
        self.sig, self.everything, self.makes = s[1], s[2], s[3]
        self.consts, self.counter, self.colvals = s[4], s[5], s[6]
        self.idbs, self.consumers = s[7], s[8]

    # -- analysis of what exists so far
    def graph(self):
        x, info = expand({'rules': self.rules, 'inj': self.inj, 'make': self.makes})
        g = DepGraph(x['rules'])
        g.origin = info['origin']
        return g

    def src(self):
        return list(self.everything) + list(self.consts)

    def same_sig(self, a, b):
        sa, sb = self.sig[a], self.sig[b]
        return tuple(map(tuple, sa['fields'])) == tuple(map(tuple, sb['fields'])) and \
            sa['value'] == sb['value']

    # -- values for an argument
    def value_for(self, a, g, avoid=()):
        """A predicate (or literal) with the signature of argument predicate `a`."""
        rng = self.rng
        sig = self.sig[a]
        if a in self.consts:
            t = self.consts[a]
            r = rng.random()
            if r < 0.55:
                # literals already used elsewhere are avoided: two different literals
                # in one program exercise the compiler's constant table
                used = [v[1] for m in self.makes for x, v in m[2] if v[0] == 'const']
                pool = [c for c in (CONST_N if t == 'N' else CONST_S)]
                fresh_ = [c for c in pool if c not in used]
                return ('const', rng.choice(fresh_ if fresh_ and rng.random() < 0.8
                                            else pool))
            others = [k for k in self.consts if k != a and self.consts[k] == t
                      and k not in avoid]
            if others and r < 0.72:
                return ('pred', rng.choice(others))
            k = self.fresh('K')
            if r < 0.87:
                self.add_const(k, t)
            else:
                # a constant whose value is computed from the argument itself
                e = ('bin', '+', ('fcall', a, ()), ('lit', rng.choice([1, 2, 10]))) \
                    if t == 'N' else ('bin', '++', ('fcall', a, ()), ('lit', 'q'))
                self.add_const(k, t, e)
            return ('pred', k)
        r = rng.random()
        existing = [p for p in self.everything
                    if p != a and p not in avoid and self.same_sig(p, a)]
        made_same = [p for p in existing if p in [m[0] for m in self.makes]]
        if made_same and rng.random() < 0.6:
            return ('pred', rng.choice(made_same))     # a functor result as value
        if existing and r < 0.3:
            return ('pred', rng.choice(existing))
        name = self.fresh('T')
        originals = [p for p in self.everything if p not in [m[0] for m in self.makes]
                     and p not in self.consumers]
        if r < 0.55:
            if rng.random() < 0.75:
                self.add_twin_facts(name, a)
            else:
                self.add_edb(name, sig)
        elif r < 0.8:
            # derived twin that reads the argument itself
            self.define(name, [a], rng.sample(originals, min(len(originals), 1)),
                        sig=sig)
        else:
            self.define(name, [rng.choice(originals)],
                        rng.sample(originals, min(len(originals), 1)), sig=sig)
        return ('pred', name)

    def pick_keys(self, functor, g, k=None):
        rng = self.rng
        src = set(self.src())
        cands = [p for p in g.reach(functor) if p in src]
        if EXCLUDE_REBIND_COPIED:
            # A predicate that an application inside `functor` has already replaced
            # by a private copy, and that is still reachable by name (through a
            # value): whether the copy is "a use of" it is not decided by the
            # statement (rule substitution says no, late binding says yes).
            copied = rebind_ambiguous(g, functor)
            if any(p in copied for p in cands):
                self.excl('arg_names_already_copied_predicate')
            cands = [p for p in cands if p not in copied]
        if not cands:
            return []
        if k is None:
            k = rng.choice((1, 1, 1, 1, 2, 2, 2, 3))
        k = min(k, len(cands))
        # deeper arguments are more interesting: weight by the longest path
        weighted = []
        for p in cands:
            d = g.longest(functor, p) or 0
            weighted.extend([p] * (1 + 2 * min(d, 3) ** 2))
        keys = []
        made_cands = [p for p in cands if p in [m[0] for m in self.makes]]
        if made_cands and rng.random() < 0.4:
            keys.append(rng.choice(made_cands))        # a made predicate as argument
        while len(keys) < k:
            p = rng.choice(weighted)
            if p not in keys:
                keys.append(p)
        return keys

    def try_make(self, functor, args_fn, attempts=4):
        """args_fn(g) -> args; retried (new twins) while the made predicate is empty
        or equal to the functor."""
        for attempt in range(attempts):
            snap = self.snapshot()
            g = self.graph()
            args = args_fn(g)
            if not args:
                self.restore(snap)
                return None
            name = self.fresh('N')
            self.makes.append((name, functor, tuple(args)))
            self.sig[name] = self.sig[functor]
            if functor in self.consts:
                self.consts[name] = self.consts[functor]
            else:
                self.everything.append(name)
            if attempt == attempts - 1:
                return name
            try:
                ev = self.evaluator()
                a, b = ev.rows(name), ev.rows(functor)
                if a and sorted(map(repr, a)) != sorted(map(repr, b)):
                    return name
            except Exception:
                return name
            self.restore(snap)
            self.excl('regenerated_make_without_effect')
        return None

    def step_new(self, on_made=False):
        rng = self.rng
        made = [m[0] for m in self.makes if m[0] not in self.consts]
        if on_made:
            pool = made + list(self.consumers)
        else:
            pool = list(self.idbs)
            if len(pool) > 2 and rng.random() < 0.7:
                pool = pool[-2:]
        g = self.graph()
        src = set(self.src())
        pool = [p for p in pool if any(q in src for q in g.reach(p))]
        if not pool:
            return None
        functor = rng.choice(pool)

        def args_fn(g):
            keys = self.pick_keys(functor, g)
            cross = self.cross_bindings(functor, g, keys)
            if cross:
                return cross
            return [(a, self.value_for(a, g, avoid=keys)) for a in keys]
        return self.try_make(functor, args_fn)

    def cross_bindings(self, functor, g, keys):
        """Simultaneous substitution: the value of one argument is the NAME of another
        argument of the same call: F(A: B, B: C) or F(A: B, B: A)."""
        rng = self.rng
        if not keys or rng.random() >= self.o['p_cross']:
            return None
        src = set(self.src())
        copied = rebind_ambiguous(g, functor) if EXCLUDE_REBIND_COPIED else set()
        cands = [p for p in g.reach(functor) if p in src and p not in copied]
        pairs = [(a, b) for a in keys for b in cands if a != b and self.same_sig(a, b)]
        if not pairs:
            return None
        a, b = rng.choice(pairs)
        rest = [k for k in keys if k not in (a, b)][:1]
        if rng.random() < 0.5:
            args = [(a, ('pred', b)), (b, ('pred', a))]
        else:
            args = [(a, ('pred', b)), (b, self.value_for(b, g, avoid=[a, b] + rest))]
        if rng.random() < 0.5:
            args.reverse()
        args += [(k, self.value_for(k, g, avoid=[a, b] + rest)) for k in rest]
        return args

    def step_repeat(self):
        rng = self.rng
        if not self.makes:
            return None
        base = rng.choice(self.makes)
        functor, args = base[1], list(base[2])
        mode = rng.choice(('equal', 'equal', 'one_changed', 'one_changed', 'extra',
                           'fewer', 'all_changed'))

        def args_fn(g):
            a2 = list(args)
            if mode == 'equal':
                if len(a2) > 1 and rng.random() < 0.5:
                    a2.reverse()
                return a2
            keys = [a for a, v in a2]
            if mode == 'one_changed':
                i = rng.randrange(len(a2))
                a2[i] = (a2[i][0], self.value_for(a2[i][0], g, avoid=keys))
            elif mode == 'all_changed':
                a2 = [(a, self.value_for(a, g, avoid=keys)) for a in keys]
            elif mode == 'extra':
                more = [k for k in self.pick_keys(functor, g, 3) if k not in keys]
                if more:
                    a2.append((more[0], self.value_for(more[0], g, avoid=keys + more)))
                else:
                    i = rng.randrange(len(a2))
                    a2[i] = (a2[i][0], self.value_for(a2[i][0], g, avoid=keys))
            elif mode == 'fewer':
                if len(a2) > 1:
                    del a2[rng.randrange(len(a2))]
                else:
                    a2[0] = (a2[0][0], self.value_for(a2[0][0], g, avoid=keys))
            return a2
        # an equal application is kept whatever its rows are
        return self.try_make(functor, args_fn, attempts=1 if mode == 'equal' else 4)

    def step_consumer(self):
        rng = self.rng
        made = [m[0] for m in self.makes if m[0] not in self.consts]
        if not made:
            return None
        name = self.fresh('G')
        may = rng.sample(self.everything, min(len(self.everything), rng.randint(0, 2)))
        self.define(name, [rng.choice(made)], may)
        self.consumers.append(name)
        return name

    def step_deep(self):
        """NEW := F(A: X) where F reaches a made predicate M only through an
        intermediate predicate, M depends on A, and F also reads A directly."""
        rng = self.rng
        g = self.graph()
        src = set(self.src())
        made = [m[0] for m in self.makes if m[0] not in self.consts]
        opts = []
        for m in made:
            copied = rebind_ambiguous(g, m) if EXCLUDE_REBIND_COPIED else set()
            for a in g.reach(m):
                if a in src and a not in copied and a not in made:
                    opts.append((m, a))
        if not opts:
            return None
        m, a = rng.choice(opts)
        g0 = self.fresh('G')
        self.define(g0, [m])
        self.consumers.append(g0)
        g1 = self.fresh('G')
        if a in self.consts:
            self.define(g1, [g0], mconst=[a])
        else:
            self.define(g1, [g0, a])
        self.consumers.append(g1)

        def args_fn(g):
            if EXCLUDE_REBIND_COPIED and a in rebind_ambiguous(g, g1):
                return []
            return [(a, self.value_for(a, g, avoid=[a]))]
        return self.try_make(g1, args_fn)

    def maybe_annotate(self, name):
        """@OrderBy over ALL columns (total order up to identical rows) + @Limit K on an
        intermediate predicate: copies made by functor applications must keep it."""
        rng = self.rng
        sig = self.sig[name]
        if sig['value'] or not all(t in gen.ATOMS for f, t in sig['fields']):
            return
        try:
            rows = self.evaluator().rows(name)
        except Exception:
            return
        if len(rows) < 2 or any(v is None for r in rows for v in r.values()):
            return
        fields = [f for f, t in sig['fields']]
        rng.shuffle(fields)
        self.order_by[name] = [(f, rng.random() < 0.4) for f in fields]
        self.limit[name] = rng.randint(1, len(rows) - 1)
        self.labels.add('order_by_limit')

    # -- whole program
    def program(self):
        rng, o = self.rng, self.o
        for i in range(rng.randint(*o['n_edb'])):
            self.add_edb(self.fresh('E'))
        if self.chance(o['p_twin_edb']):
            # two fact predicates of one signature from the start: both end up in one
            # functor's definition, so that F(A: B, B: C) / F(A: B, B: A) can be drawn
            self.add_edb(self.fresh('E'), self.sig[rng.choice(self.everything)])
        for i in range(rng.choice(o['n_const'])):
            self.add_const(self.fresh('K'))
        for i in range(rng.randint(*o['n_inj'])):
            self.make_inj('J%d' % i)
        prev = None
        for i in range(rng.randint(*o['n_idb'])):
            name = self.fresh('P')
            lower = list(self.everything)
            must = [prev] if prev is not None and self.chance(o['p_chain']) \
                else [rng.choice(lower)]
            if self.chance(o['p_second_must']):
                x = rng.choice(lower)
                if x not in must:
                    must.append(x)
            may = rng.sample(lower, min(len(lower), rng.randint(0, 2)))
            consts = list(self.consts)
            mconst = [rng.choice(consts)] if consts and self.chance(o['p_const_use']) \
                else []
            self.define(name, must, may, mconst, okconst=consts)
            self.idbs.append(name)
            prev = name
            if not self.order_by and self.chance(o['p_annotate']):
                self.maybe_annotate(name)
        self.step_new()
        for _ in range(rng.randint(*o['steps']) - 1):
            r = rng.random()
            if r < 0.22:
                self.step_new()
            elif r < 0.5:
                self.step_repeat()
            elif r < 0.75:
                self.step_new(on_made=True) or self.step_new()
            elif len(self.consumers) < 2:
                self.step_consumer()
            else:
                self.step_new(on_made=True) or self.step_repeat()
        if self.chance(o['p_deep']):
            self.step_deep()
        return self.result()

    def result(self):
        p = gen.Gen.result(self)
        # made names are permuted: the compiler orders applications itself and walks
        # them in lexicographic order, which must not coincide with creation order
        made = [m[0] for m in self.makes]
        perm = list(made)
        self.rng.shuffle(perm)
        m = dict(zip(made, perm))
        ren = lambda n: m.get(n, n)
        p['rules'] = [dict(_map_rule_preds(r, ren), pred=ren(r['pred']))
                      for r in self.rules]
        p['sig'] = {ren(k): v for k, v in p['sig'].items()}
        p['preds'] = [ren(x) for x in list(self.everything) + list(self.consts)]
        p['make'] = [[ren(n), ren(f), [[ren(a), [v[0], ren(v[1]) if v[0] == 'pred'
                                                 else v[1]]] for a, v in args]]
                     for n, f, args in self.makes]
        p['make_at'] = [self.rng.randint(0, len(self.rules)) for _ in self.makes]
        p['order_by'] = {k: [list(x) for x in v] for k, v in self.order_by.items()}
        p['limit'] = dict(self.limit)
        p['ann'] = ann_lines(p)
        return p


def gen_functor_program(rng, **opts):
    g = FGen(rng, **opts)
    p = g.program()
    p['make'] = norm_makes(p['make'])
    return p
